#!/venv/bin/python
"""C06 - index operations track NumPy on the dense array over any history.

Declined: the NumPy-model equivalence of append / update / filtered / sliced / reindexed /
collapsed / column_stack over histories (values x histories; needs execution).
Decided (the statement's last sentence and one dtype clause):
  R-C06-a  operands other than the receiver are left unchanged, and non-mutating methods
           leave the receiver unchanged (engine F mod/ref, every overrider inlined);
  R-C06-b  explicitly requested copies (copy(), reindexed(copy=True), column_stack(copy=True),
           set_if(copy=True)) store only freshly allocated arrays;
  R-C06-c  the dtype chosen for collapsed output covers negative category values
           (fit_dtype called with a minimum whenever its argument is a category value);
  R-C06-d  column_stack changes the common value of a copy, never of its input.
"""
import os
import sys

sys.path.insert(0, os.path.dirname(os.path.dirname(os.path.abspath(__file__))))
import c17
from sa import core, hints, own, terms as tm
from sa.terms import T
from sa.pyfront import Program
from sa.symex import Interp, flat_guards

RULES = {
    "R-C06-s": "set_if removes the key when the value is None or empty: the set-update methods pass it the result of intersection() / difference() / union(), which encode the EMPTY set as None",
    "R-C06-o": "collapsed: the decision structure of the algorithm - entries are gathered per (mapped) value except the new common value; the output starts as precedence[-1] and is overwritten from the lowest to the highest precedence; a per-row counter of columns not yet explained (initially the number of columns, decremented for the last precedence and for every value written while the common value has not been written yet) decides which rows take the common value when its turn comes",
    "R-C06-r": "every operation's result is a well-formed index (row lists sorted, unique, in range, non-empty): imported from the C07 analysis of the same operations",
    "R-C06-q": "filtered / reindexed / collapsed / copy / sliced / column_stack return a new index on every path, never the receiver or an argument (documented exception: sliced() without orders)",
    "R-C06-p": "small schemas the other operations rest on: set_if pops the key for a None / empty value and stores otherwise; filtered renumbers through a scatter of arange(new_length) and builds shape (new_length,) + shape[1:]; sliced starts its shape and coordinates with the row extent / the value; the default mapping of reindexed ranks the listed VALUES (first coordinates)",
    "R-C06-n": "forced views: get(key, force=True) of a common-valued key returns common_rowids(<the key's own column>), and items(force=True) appends ((common,), common_rowids()) for a 1-D index or ((common, c), common_rowids(c)) for EVERY column c of a 2-D one, after the explicit entries",
    "R-C06-m": "an optional parameter that holds a category value or a column number (new_common, common, colindex) is tested with `is None`, never by truthiness: 0 is a legal - and the most usual - value",
    "R-C06-l": "collapsed: the dtype of the output array is chosen from a collection that contains every value the method can write into it (the fill value and every precedence code), not from a filtered subset",
    "R-C06-k": "no operation leaves an explicit entry under the common value (imported from the C07 analysis): such an entry is invisible to to_array but is overwritten by the next common-value move, after which the dense values differ from NumPy's",
    "R-C06-j": "an augmented assignment through an integer-array index (A[rows] -= 1) acts once per DISTINCT row (NumPy buffers the read-modify-write), so the index array must be duplicate-free: one entry's row ids are, a concatenation of several entries' row ids is not",
    "R-C06-i": "the dtype ladder that collapsed relies on (fit_dtype) contains [min, max] in every leaf - imported from the C19 analysis",
    "R-C06-a": "no method writes storage reachable from a non-receiver operand; non-mutating methods do not write the receiver either",
    "R-C06-b": "with the copy flag on, every array stored in the result is freshly allocated (shares no storage with the source)",
    "R-C06-c": "fit_dtype receives a minimum whenever its argument is a category value that may be negative",
    "R-C06-d": "column_stack calls shift_common(new_common) on a copy (FRESH receiver), not on a caller's index",
    "R-C06-e": "sliced: per requested axis the decision table is None -> keep extent and coordinate; int k -> drop the axis, keep entries with coordinate == k; list L -> extent len(L), coordinate L.index(c), keep iff c in L; axes are addressed from 1",
    "R-C06-f": "column_stack: column coordinates are offset by the number of columns already stacked (ii.shape[1] or 1 per input) and the result has that many columns and the inputs' row count",
    "R-C06-g": "append: other's row ids are shifted by the receiver's OLD row count and the new row count is old + other's",
    "R-C06-h": "reindexed: first coordinate -> mapping.get(c) (unmapped values kept), remaining coordinates unchanged, common value mapped the same way, shape unchanged",
}
MUTATORS = {"append", "update", "union_update", "intersection_update", "difference_update", "shift_common", "set_if"}
NON_MUTATING = {"to_array", "to_dict", "copy", "filtered", "sliced", "slices1d", "reindexed", "collapsed", "get", "items", "common_rowids",
                "__eq__", "__ne__", "validate", "abscissae", "size", "sparsity", "nbytes", "ndim", "__str__", "from_array", "common_common"}


def rule_a(prog, rep):
    ii = prog.cls("iindexes", "iindex")
    stats = {"events": 0, "mods": 0, "diagnostic": {}, "exceptions": {}, "regions": 0, "shortcuts": 0}
    n = 0
    for name, fi in ii.methods.items():
        if name == "__init__" or (name.startswith("_") and not name.startswith("__")):
            continue  # private helpers are analysed through the public methods that call them
        kind = "mutator" if name in MUTATORS else "pure"
        c17.analyse_root(prog, fi, kind, rep, stats, RA="R-C06-a", RB="R-C06-a", extra=False)
        n += 1
    c17.analyse_root(prog, prog.func("iindexes", "column_stack"), "pure", rep, stats, RA="R-C06-a", RB="R-C06-a", extra=False)
    n += 1
    rep.floor("R-C06-a", 22, n)
    rep.analysed["methods"] = n
    rep.analysed["write_events_classified"] = stats["mods"]


def stored_arrays(I, result, ctx):
    """(value term, event) pairs for the arrays that end up in the entries of a constructed index."""
    out = []
    for a in tm.alts(result):
        if a.op != "alloc":
            continue
        # the dict passed to the constructor
        for ev in I.events:
            if ev.kind == "call" and ev["result"] is not None and a in tm.alts(ev["result"]) and ev["args"]:
                ent = ev["args"][0]
                for e in tm.alts(ent):
                    if e.op == "alloc":
                        for k, v in I.heap.get(e, {}).get("items", []):
                            out.append(v)
                    elif e.op == "call" and tm.callee_name(e) == "builtins.dict" and e.args[1]:
                        src = e.args[1][0]
                        if src.op == "comp" and src.args[1].op == "tuple" and len(src.args[1].args) == 2:
                            out.append(src.args[1].args[1])
                        else:
                            out.append(src)
                    elif e.op == "comp" and e.args[0] == "dict":
                        out.append(e.args[1].args[1])
                    else:
                        out.append(e)
    return out


def rule_b_union(prog, rep):
    """union_update documents 'make a copy of other[coords] if coords not in self': the wrapper union(None, right)
    hands back `right` itself unless copy_right is set (or the value is copied on the way into the index)."""
    fi = prog.func("iindexes", "iindex.union_update")
    I = Interp(prog, hints.param_types_for("iindexes"), hints.FIELD_TYPES, inline=False)
    I.run(fi)
    us = [e for e in I.events if e.kind == "call" and e["name"] == "set_operations:union" and not e.stack]
    sets = [e for e in I.events if e.kind == "call" and e["method"] == "set_if" and not e.stack]
    if len(us) != 1 or len(sets) != 1:
        rep.undecided("R-C06-b", fi.fq, "union_update: the operand's array is copied for a new key", "expected one union(...) fed to one set_if(...), found %d / %d" % (len(us), len(sets)))
        return
    cr = dict(us[0]["kwargs"]).get("copy_right", us[0]["args"][3] if len(us[0]["args"]) > 3 else tm.FALSE)
    sc = dict(sets[0]["kwargs"]).get("copy", sets[0]["args"][2] if len(sets[0]["args"]) > 2 else tm.TRUE)
    ok = cr == tm.TRUE or sc == tm.TRUE
    rep.check(ok, "R-C06-b", "%s@%d" % (fi.fq, us[0].line), "union_update: the operand's array is copied for a new key", "copy_right=True (or set_if copies)",
              "union(None, rows) returns the operand's own array and set_if(copy=False) stores it: the index shares storage with the argument",
              witness={"inputs": "idx.union_update({(9,): rows}); rows[0] = 12345 changes idx[(9,)]"})


def rule_b(prog, rep):
    rule_b_union(prog, rep)
    cases = [("iindex.copy", None), ("iindex.reindexed", "copy"), ("column_stack", "copy"), ("iindex.set_if", "copy")]
    n = 0
    for qual, flag in cases:
        fi = prog.func("iindexes", qual)

        def oracle(t, flag=flag):
            if flag and t == tm.param(flag):
                return True
            return None

        I = Interp(prog, hints.param_types_for("iindexes"), hints.FIELD_TYPES, oracle=oracle, max_depth=8)
        fr = I.run(fi, args=({flag: tm.TRUE} if flag else None))
        ctx = own.OwnCtx(I)
        where = fi.fq
        if qual == "iindex.set_if":
            vals = [ev["value"] for ev in I.events if ev.kind == "store_sub" and ev["base"] == tm.param("self")]
        else:
            res = fr.returns[0][0] if fr.returns else None
            vals = stored_arrays(I, res, ctx) if res is not None else []
        vals = [v for v in vals if not (v.op == "alloc" and v.args[0] == "list")]
        if not vals:
            rep.undecided("R-C06-b", where, "arrays stored in the copy", "could not determine what is stored in the result")
            continue
        bad = []
        for v in vals:
            rs = own.roots(v, ctx)
            if rs != {own.FRESH}:
                bad.append((v, rs))
        n += 1
        rep.check(not bad, "R-C06-b", where, "%s%s stores fresh arrays only" % (qual, "(copy=True)" if flag else "()"),
                  "%d stored value(s), all freshly allocated" % len(vals),
                  "a stored array may share storage with the source: %s has roots %s" % (tm.show(bad[0][0])[:60], sorted(bad[0][1])) if bad else "",
                  witness={"history": "copy, then mutate the copy's row ids in place: the source changes too"})
    rep.floor("R-C06-b", 4, n)


CATEGORY, NONNEG, UNKNOWN = "CATEGORY", "NONNEG", "UNKNOWN"


def value_class(t, I, depth=0):
    """Is an integer value a category id (may be negative) or a count/extent (non-negative)?"""
    if depth > 12:
        return UNKNOWN
    if t.op == "const":
        return NONNEG if isinstance(t.args[1], int) and t.args[1] >= 0 else CATEGORY
    if t.op == "call":
        nm = tm.callee_name(t)
        if nm in ("builtins.max", "builtins.min", "numpy.max", "numpy.amax", "builtins.sorted", "builtins.list", "builtins.tuple"):
            cs = [value_class(a, I, depth + 1) for a in t.args[1]]
            return CATEGORY if CATEGORY in cs else (NONNEG if cs and all(c == NONNEG for c in cs) else UNKNOWN)
        if nm == "builtins.len":
            return NONNEG
        if nm == ".values":
            return CATEGORY if tm.contains(t, lambda x: x.op == "param" and x.args[0] == "mapping") else UNKNOWN
        return UNKNOWN
    if t.op == "param":
        if t.args[0] in ("precedence", "mapping", "common", "new_common"):
            return CATEGORY
        return UNKNOWN
    if t.op == "attr":
        if t.args[1] == "common":
            return CATEGORY
        if t.args[1] in ("shape", "size", "ndim", "itemsize"):
            return NONNEG
        return UNKNOWN
    if t.op in ("sub", "unpack"):
        base = t.args[0]
        if base.op == "attr" and base.args[1] == "shape":
            return NONNEG
        if base.op == "sub" and base.args[0].op == "attr" and base.args[0].args[1] == "shape":
            return NONNEG
        # coords[0] of an index key
        if base.op in ("dkey", "iter"):
            return CATEGORY
        return value_class(base, I, depth + 1)
    if t.op in ("dkey",):
        return CATEGORY
    if t.op == "iter":
        return value_class(t.args[0], I, depth + 1)
    if t.op == "comp":
        return value_class(t.args[1], I, depth + 1)
    if t.op == "binop":
        cs = [value_class(a, I, depth + 1) for a in t.args[1:]]
        if t.args[0] == "+" and any(c == CATEGORY for c in cs):
            return CATEGORY
        return NONNEG if all(c == NONNEG for c in cs) else (CATEGORY if CATEGORY in cs else UNKNOWN)
    if t.op in ("phi", "ifexp"):
        cs = [value_class(a, I, depth + 1) for a in tm.alts(t)]
        return CATEGORY if CATEGORY in cs else (NONNEG if all(c == NONNEG for c in cs) else UNKNOWN)
    if t.op == "alloc":
        els = I.heap.get(t, {}).get("elts", [])
        cs = [value_class(a, I, depth + 1) for a in els]
        return CATEGORY if CATEGORY in cs else (NONNEG if cs and all(c == NONNEG for c in cs) else UNKNOWN)
    return UNKNOWN


def fit_dtype_sites(prog, quals, rep, rule, witness_for):
    """Every call of fit_dtype inside the given functions: a CATEGORY argument needs a minimum."""
    n = 0
    for qual in quals:
        fi = prog.func("iindexes", qual)
        I = Interp(prog, hints.param_types_for("iindexes"), hints.FIELD_TYPES, inline=False)
        I.run(fi)
        for ev in I.events:
            if ev.kind != "call" or ev["name"] != "iindexes:fit_dtype":
                continue
            n += 1
            arg = ev["args"][0] if ev["args"] else None
            kw = dict(ev["kwargs"])
            minarg = ev["args"][1] if len(ev["args"]) > 1 else kw.get("minval")
            cls = value_class(arg, I) if arg is not None else UNKNOWN
            where = "%s@%d" % (fi.fq, ev.line)
            cons = "fit_dtype(%s)" % _short_arg(arg)
            if cls == NONNEG:
                rep.proved(rule, where, cons, "argument is a count / extent: never negative, no minimum needed")
            elif cls == CATEGORY:
                MINS, MAXS = ("builtins.min", "numpy.min", "numpy.amin"), ("builtins.max", "numpy.max", "numpy.amax")
                ok = minarg is not None and minarg.op == "call" and tm.callee_name(minarg) in MINS and value_class(minarg, I) == CATEGORY
                rep.check(ok, rule, where, cons, "minimum of the same values is passed",
                          "the argument is the maximum of category values that may be negative, but no minimum is passed: an unsigned dtype is chosen",
                          witness=witness_for(qual))
                # the two arguments are the MAXIMUM and the MINIMUM of one and the same collection
                if arg.op == "call" and tm.callee_name(arg) in MINS + MAXS and arg.args[1]:
                    rep.check(tm.callee_name(arg) in MAXS, rule, where, cons + ": first argument is the maximum", "max(...)",
                              "the first argument (maxval) is the MINIMUM of the values: the dtype is sized for the smallest value and the larger ones do not fit",
                              witness={"inputs": "values 0 and 300: uint8 is chosen and storing 300 raises OverflowError"})
                    if ok and minarg.args[1]:
                        rep.check(minarg.args[1][0] == arg.args[1][0], rule, where, cons + ": maximum and minimum are taken over the same values", "",
                                  "max(...) and min(...) range over different collections (%s / %s)" % (tm.show(arg.args[1][0])[:30], tm.show(minarg.args[1][0])[:30]),
                                  witness={"inputs": "a value present in one collection only decides the other bound"})
            else:
                rep.undecided(rule, where, cons, "cannot classify the argument as category value or extent")
    return n


def _short_arg(arg):
    if arg is None:
        return ""
    names = sorted({x.args[0] for x in tm.walk(arg) if x.op == "param"} | {x.args[1] for x in tm.walk(arg) if x.op == "attr"})
    calls = [tm.callee_name(x).split(".")[-1] for x in tm.walk(arg) if x.op == "call" and tm.callee_name(x)]
    return "%s of %s" % ("/".join(calls[:2]) or "value", ",".join(names[:3]))


def rule_c(prog, rep):
    n = fit_dtype_sites(prog, ["iindex.collapsed"], rep, "R-C06-c",
                        lambda q: {"inputs": "the method's own docstring example: M.collapsed([1, 0, -1]) raises OverflowError"})
    rep.floor("R-C06-c", 2, n)


def rule_n(prog, rep):
    self_t = tm.param("self")
    common = tm.T("attr", self_t, "common")
    # ---- get
    fi = prog.func("iindexes", "iindex.get")
    I = Interp(prog, hints.param_types_for("iindexes"), hints.FIELD_TYPES, inline=False)
    I.run(fi)
    key = tm.param(fi.params()[1])
    calls = [e for e in I.events if e.kind == "call" and e["method"] == "common_rowids" and not e.stack]
    rest = tm.T("sub", key, tm.T("slice", tm.const(1), tm.NONE, tm.NONE))
    okg = bool(calls) and all(len(e["args"]) == 1 and e["args"][0].op == "starred" and e["args"][0].args[0] == rest for e in calls)
    rep.check(okg, "R-C06-n", fi.fq, "get(force): common rows of the key's own column: common_rowids(*key[1:])", "", "common_rowids is called with %s" % [tm.show(a)[:30] for e in calls for a in e["args"]],
              witness={"inputs": "2-D index: idx.get((common, 1), force=True) returns the common rows of column 0 / of no column"})
    k0 = tm.T("sub", key, tm.const(0))
    guarded = bool(calls) and all(any(tm.contains(c, lambda x: x.op == "cmp" and x.args[0] == "==" and common in x.args[1:] and k0 in x.args[1:]) and pol for c, pol in e.guards) for e in calls)
    rep.check(guarded, "R-C06-n", fi.fq, "get(force): the common rows are returned only for a key whose value is the common value", "", "the force path is not guarded by key[0] == self.common")
    # ---- items
    fi = prog.func("iindexes", "iindex.items")
    I = Interp(prog, hints.param_types_for("iindexes"), hints.FIELD_TYPES, inline=False)
    fr = I.run(fi)
    forced = [v for v, g in fr.returns if any(c == tm.param(fi.params()[1]) and pol for c, pol in g)]
    if len(forced) != 1 or not (forced[0].op == "call" and tm.callee_name(forced[0]) == "itertools.chain" and len(forced[0].args[1]) == 2):
        rep.undecided("R-C06-n", fi.fq, "items(force)", "the forced result is not chain(<explicit items>, <common items>)")
        return
    explicit, commons = forced[0].args[1]
    rep.check(explicit.op == "call" and tm.callee_name(explicit) in (".items", "builtins.dict.items") and explicit.args[0].args[0].op in ("super", "param"), "R-C06-n", fi.fq,
              "items(force): the explicit entries come first", "", "first part is %s" % tm.show(explicit)[:40])
    alts = tm.alts(commons)
    one = [a for a in alts if a.op == "comp" and a.args[1].op == "tuple" and a.args[1].args[0].op == "tuple" and len(a.args[1].args[0].args) == 1]
    two = [a for a in alts if a.op == "comp" and a.args[1].op == "tuple" and a.args[1].args[0].op == "tuple" and len(a.args[1].args[0].args) == 2]
    ok1 = len(one) == 1 and one[0].args[1].args[0].args[0] == common and one[0].args[1].args[1].op == "call" and tm.callee_name(one[0].args[1].args[1]) == ".common_rowids" and not one[0].args[1].args[1].args[1]
    rep.check(ok1, "R-C06-n", fi.fq, "items(force), 1-D: ((common,), common_rowids())", "", "1-D forced item is %s" % (one and tm.show(one[0].args[1])[:60]))
    ok2 = False
    why = "no 2-D forced item"
    if len(two) == 1:
        k, v = two[0].args[1].args
        col = k.args[1]
        lid = two[0].args[2][0] if two[0].args[2] else None
        it = I.loopinfo[lid].get("iter") if lid else None
        all_cols = it is not None and it.op == "call" and tm.callee_name(it) == "builtins.range" and it.args[1] == (tm.T("sub", tm.T("attr", self_t, "shape"), tm.const(1)),)
        same_col = v.op == "call" and tm.callee_name(v) == ".common_rowids" and v.args[1] == (col,) and col.op == "iter"
        ok2 = k.args[0] == common and all_cols and same_col
        why = "columns enumerated by %s; rows from common_rowids(%s) under key column %s" % (it is not None and tm.show(it)[:30], v.op == "call" and [tm.show(a)[:20] for a in v.args[1]], tm.show(col)[:20])
    rep.check(ok2, "R-C06-n", fi.fq, "items(force), 2-D: ((common, c), common_rowids(c)) for every column c in range(shape[1])", "", why,
              witness={"inputs": "2-D index: to_dict(force=True) misses the common rows of a column / reports another column's rows"})


NEW_INDEX_METHODS = ("iindex.filtered", "iindex.reindexed", "iindex.collapsed", "iindex.copy", "iindex.sliced", "column_stack")
# a return of the receiver that is outside the property's quantifier, with the reason
ALIAS_EXCEPTIONS = {("iindex.sliced", "no orders"): "sliced() without any order returns the receiver; C06 quantifies over sliced(<one order per axis>), where a new index is built"}


def rule_q(prog, rep):
    """Operations that hand back an index build a NEW one on every path: returning the receiver (or an argument) makes a
    later in-place operation on the result rewrite the source - `operands other than the receiver are left unchanged`."""
    n = 0
    for qual in NEW_INDEX_METHODS:
        fi = prog.func("iindexes", qual)
        I = Interp(prog, hints.param_types_for("iindexes"), hints.FIELD_TYPES, inline=False)
        fr = I.run(fi)
        params = [tm.param(p) for p in fi.params()]
        for v, g in fr.returns:
            n += 1
            alias = [p for p in params if any(a == p for a in tm.alts(v))]
            w = fi.fq
            cons = "%s returns a new index on every path" % qual.split(".")[-1]
            if not alias:
                rep.proved("R-C06-q", w, cons, "returns %s" % tm.show(v)[:50])
                continue
            fl = flat_guards(g)
            if qual == "iindex.sliced" and any((not pol) and c.op == "param" and c.args[0].startswith("*") for c, pol in fl):
                rep.proved("R-C06-q", w, cons + " (documented exception)", ALIAS_EXCEPTIONS[("iindex.sliced", "no orders")])
                continue
            rep.violated("R-C06-q", w, cons, "on the path [%s] the %s itself is returned: an update / append / difference_update on the result rewrites the source index"
                         % (", ".join("%s%s" % ("" if pol else "not ", tm.show(c)[:40]) for c, pol in fl) or "always", "receiver" if alias[0] == tm.param("self") else "argument %s" % tm.show(alias[0])),
                         witness={"history": "b = a.%s(<arguments that take this path>); b.update({...}); a has changed" % qual.split(".")[-1]})
    rep.floor("R-C06-q", 8, n)


def rule_p(prog, rep):
    self_t = tm.param("self")
    # ---- set_if
    fi = prog.func("iindexes", "iindex.set_if")
    I = Interp(prog, hints.param_types_for("iindexes"), hints.FIELD_TYPES, inline=False)
    I.run(fi)
    key, value = tm.param(fi.params()[1]), tm.param(fi.params()[2])
    pops = [e for e in I.events if e.kind == "call" and e["method"] == "pop" and e["recv"] == self_t and e["args"] and e["args"][0] == key]
    dels = [e for e in I.events if e.kind == "del_sub" and e["base"] == self_t]
    stores = [e for e in I.events if e.kind == "store_sub" and e["base"] == self_t and e["index"] == key]
    def empties(g, pol_store):
        """guards say: value is None or len(value) == 0 (pol_store False) / the negation (True)"""
        fl = flat_guards(g)
        return any((c.op == "cmp" and c.args[0] in ("is", "is not") and value in c.args[1:] and tm.NONE in c.args[1:]) or
                   (c.op == "cmp" and c.args[1].op == "call" and tm.callee_name(c.args[1]) == "builtins.len" and c.args[1].args[1][0] == value) or
                   (c.op == "call" and tm.callee_name(c) == "builtins.len" and c.args[1][0] == value) or c.op == "bool" for c, pol in fl)
    okp = bool(pops or dels) and all(empties(e.guards, False) for e in pops + dels)
    rep.check(okp, "R-C06-p", fi.fq, "set_if: a None / empty value removes the key", "self.pop(key, None) under `value is None or len(value) == 0`",
              "no removal of the key for an empty value: an entry whose rows were all taken away (intersection_update, difference_update) keeps its OLD rows",
              witness={"inputs": "idx.intersection_update({(1,): [rows disjoint from idx[(1,)]]}): entry (1,) keeps all its rows instead of disappearing"})
    rep.check(len(stores) >= 1 and all(empties(e.guards, True) for e in stores), "R-C06-p", fi.fq, "set_if: a non-empty value is stored under the key", "", "no guarded store self[key] = value")
    # ---- filtered
    fi = prog.func("iindexes", "iindex.filtered")
    I = Interp(prog, hints.param_types_for("iindexes"), hints.FIELD_TYPES, inline=False,
               oracle=lambda t: None)
    fr = I.run(fi)
    mask, new_length = tm.param(fi.params()[1]), tm.param(fi.params()[2])
    ctor = [e for e in I.events if e.kind == "call" and e["result"] is not None and any(a.op == "alloc" and a.args[0] == "obj:iindex" for a in tm.alts(e["result"])) and len(e["args"]) == 3]
    oks = False
    for e in ctor:
        sh = e["args"][2]
        oks = sh.op == "binop" and sh.args[0] == "+" and sh.args[1].op == "tuple" and sh.args[1].args == (new_length,) \
            and sh.args[2] == tm.T("sub", tm.T("attr", self_t, "shape"), tm.T("slice", tm.const(1), tm.NONE, tm.NONE)) and e["args"][1] == tm.T("attr", self_t, "common")
    rep.check(oks, "R-C06-p", fi.fq, "filtered: result has shape (new_length,) + self.shape[1:] and the same common value", "", "constructor arguments differ",
              witness={"inputs": "filtering a 2-D index: the column extent is lost / the common value changes"})
    scat = [e for e in I.events if e.kind == "store_sub" and e["index"] == mask and e["value"].op == "call" and tm.callee_name(e["value"]) == "numpy.arange" and e["value"].args[1] and e["value"].args[1][0] == new_length]
    rep.check(len(scat) == 1, "R-C06-p", fi.fq, "filtered: new row numbers = arange(new_length) scattered to the kept rows (new_rowids[mask] = arange(new_length))", "", "renumbering map not found")
    # ---- sliced: first elements
    fi = prog.func("iindexes", "iindex.sliced")
    I = Interp(prog, hints.param_types_for("iindexes"), hints.FIELD_TYPES, inline=False)
    I.run(fi)
    firsts = []
    for a, h in I.heap.items():
        if a.op == "alloc" and a.args[0] == "list" and h.get("literal") and len(h["literal"]) == 1:
            firsts.append(h["literal"][0])
    want_shape = tm.T("sub", tm.T("attr", self_t, "shape"), tm.const(0))
    ok_shape = any(x == want_shape for x in firsts)
    ok_coord = any(x.op == "sub" and x.args[0].op == "dkey" and tm.is_const(x.args[1], 0) for x in firsts)
    rep.check(ok_shape, "R-C06-p", fi.fq, "sliced: the new shape starts with the row extent self.shape[0]", "", "new_shape starts with %s" % [tm.show(x)[:30] for x in firsts],
              witness={"inputs": "sliced(...) of an (N, C) index reports C (or another extent) as its number of rows"})
    rep.check(ok_coord, "R-C06-p", fi.fq, "sliced: every new key starts with the entry's value coords[0]", "", "new_coords starts with %s" % [tm.show(x)[:30] for x in firsts])
    # ---- reindexed: default mapping
    fi = prog.func("iindexes", "iindex.reindexed")
    I = Interp(prog, hints.param_types_for("iindexes"), hints.FIELD_TYPES, inline=False)
    I.run(fi)
    dm = None
    for e in I.events:
        for v in e.d.values():
            if isinstance(v, tm.T):
                for x in tm.walk(v):
                    if x.op == "comp" and x.args[0] == "dict" and tm.contains(x, lambda y: y.op == "call" and tm.callee_name(y) == "builtins.sorted"):
                        dm = x
    if dm is None:
        rep.undecided("R-C06-p", fi.fq, "reindexed: default mapping", "dict comprehension over enumerate(sorted(...)) not found")
    else:
        srt = [y for y in tm.walk(dm) if y.op == "call" and tm.callee_name(y) == "builtins.sorted"][0]
        inner = srt.args[1][0] if srt.args[1] else None
        okv = inner is not None and inner.op == "comp" and inner.args[1].op == "sub" and tm.is_const(inner.args[1].args[1], 0) and inner.args[1].args[0].op == "iter" and inner.args[1].args[0].args[0] == self_t
        k, v = dm.args[1].args if dm.args[1].op == "tuple" else (None, None)
        okkv = k is not None and k.op == "iter" and v is not None and v.op == "enumidx"
        rep.check(bool(okv and okkv), "R-C06-p", fi.fq, "reindexed: the default mapping sends the k-th smallest listed VALUE (first coordinate) to k", "{v: i for i, v in enumerate(sorted(k[0] for k in self))}",
                  "default mapping is %s" % tm.show(dm)[:90], witness={"inputs": "reindexed() of a 2-D index ranks column numbers instead of values"})


def rule_o(prog, rep):
    fi = prog.func("iindexes", "iindex.collapsed")
    I = Interp(prog, hints.param_types_for("iindexes"), hints.FIELD_TYPES, inline=False)
    fr = I.run(fi)
    where = fi.fq
    self_t, P, M = tm.param("self"), tm.param(fi.params()[1]), tm.param(fi.params()[2])
    R = "R-C06-o"
    common = tm.T("attr", self_t, "common")
    last = tm.T("sub", P, tm.const(-1))

    def is_nc(t):
        """the new common value: self.common, or mapping.get(self.common, self.common) when a mapping is given"""
        alts = tm.alts(t)
        return bool(alts) and all(a == common or (a.op == "call" and tm.callee_name(a) == ".get" and a.args[0].args[0] == M and a.args[1] and a.args[1][0] == common and a.args[1][-1] == common) for a in alts) and common in alts

    def cmp_nc(c, lhs_pred):
        return c.op == "cmp" and c.args[0] in ("==", "!=") and ((lhs_pred(c.args[1]) and is_nc(c.args[2])) or (lhs_pred(c.args[2]) and is_nc(c.args[1])))

    def holds_eq(g, lhs_pred):
        """True / False: the guards say lhs == NC / lhs != NC; None: they say nothing"""
        for c, pol in g:
            if cmp_nc(c, lhs_pred):
                return pol if c.args[0] == "==" else (not pol)
        return None

    arrays = [e for e in I.events if e.kind == "call" and e["name"] == "numpy.full" and not e.stack and len(e["args"]) >= 2]
    shape2 = lambda k: (lambda t: t.op == "unpack" and t.args[1] == k and tm.contains(t, lambda x: x.op == "attr" and x.args[1] == "shape"))
    OUT = [e for e in arrays if e["args"][1] == last]
    CC = [e for e in arrays if shape2(1)(e["args"][1])]
    if len(OUT) != 1 or len(CC) != 1:
        rep.undecided(R, where, "collapsed: output and counter arrays", "expected numpy.full(rows, precedence[-1]) and numpy.full(rows, columns); found %d / %d" % (len(OUT), len(CC)))
        return
    out, cc = OUT[0]["result"], CC[0]["result"]
    rep.check(shape2(0)(OUT[0]["args"][0]) and shape2(0)(CC[0]["args"][0]), R, where, "output and counter have one element per row", "", "first extent is not the number of rows")
    rep.proved(R, where, "the output starts as the LAST precedence value; the counter starts at the number of columns", "numpy.full(rows, precedence[-1]) / numpy.full(rows, columns)")
    # ---- preamble: argument check, new common value, empty input
    def mapping_given(c, pol):
        """(condition, polarity) means: a mapping was passed"""
        if c.op == "cmp" and c.args[0] in ("is", "is not") and M in c.args[1:] and tm.NONE in c.args[1:]:
            return (c.args[0] == "is not") == pol
        return None

    def polarity_ok(t, plain_pred, mapped_pred):
        """every guarded choice inside t picks the mapped form exactly when a mapping is given"""
        ok, seen = True, False
        for x in tm.walk(t):
            if x.op == "ifexp":
                mg = mapping_given(x.args[0], True)
                if mg is None:
                    continue
                seen = True
                given_branch, none_branch = (x.args[1], x.args[2]) if mg else (x.args[2], x.args[1])
                if not (all(mapped_pred(a) for a in tm.alts(given_branch)) and all(plain_pred(a) for a in tm.alts(none_branch))):
                    ok = False
        return ok and seen
    raises = [e for e in I.events if e.kind == "raise" and not e.stack]
    okr = len(raises) == 1 and any(c.op == "cmp" and c.args[0] == "<" and pol and tm.is_const(c.args[2], 2) and c.args[1].op == "call" and tm.callee_name(c.args[1]) == "builtins.len" for c, pol in flat_guards(raises[0].guards))
    rep.check(okr, R, where, "only an index without a column axis is refused (len(self.shape) < 2)", "", "the argument check is not `len(self.shape) < 2`",
              witness={"inputs": "collapsed() of an ordinary 2-D index raises / a 1-D index is accepted"})
    early = [(v, g) for v, g in fr.returns if any(a.op == "alloc" and a.args[0] == "obj:iindex" for a in tm.alts(v))]
    oke = False
    for v, g in early:
        ce = [e for e in I.events if e.kind == "call" and e["result"] == v and len(e["args"]) == 3]
        norows = any((c.op == "unop" and c.args[0] == "not" and shape2(0)(c.args[1]) and pol) or (shape2(0)(c) and not pol) for c, pol in flat_guards(g))
        oke = bool(ce) and norows and ce[0]["args"][2] == tm.T("tuple", tm.const(0)) and any(a.op == "alloc" and a.args[0] == "dict" and not I.heap.get(a, {}).get("items") for a in tm.alts(ce[0]["args"][0]))
    rep.check(oke and len(early) == 1, R, where, "an index without rows (and only that) collapses to the empty 1-D index of shape (0,)", "", "the early return is not `if not numrows: return cls({}, new_common, (0,))`",
              witness={"inputs": "collapsed() of a non-empty index returns an empty one"})
    # ---- gathered entries
    G = None
    for e in I.events:
        if e.kind == "store_sub" and not e.stack and e["base"].op == "alloc" and e["base"].args[0] == "dict" and all(a.op == "alloc" and a.args[0] == "list" for a in tm.alts(e["value"])):
            G = e["base"]
            gst = e
    if G is None:
        rep.undecided(R, where, "collapsed: gathering pass", "no dict of per-value row-id lists found")
        return
    def is_newcoord(t):
        k0 = lambda x: x.op == "sub" and x.args[0].op == "dkey" and x.args[0].args[0] == self_t and tm.is_const(x.args[1], 0)
        alts = tm.alts(t)
        return bool(alts) and any(k0(a) for a in alts) and all(k0(a) or (a.op == "call" and tm.callee_name(a) == ".get" and a.args[0].args[0] == M and a.args[1] and k0(a.args[1][0]) and (len(a.args[1]) == 1 or k0(a.args[1][-1]))) for a in alts)
    apps = [e for e in I.events if e.kind == "call" and e["method"] == "append" and not e.stack and e["recv"].op == "call" and tm.callee_name(e["recv"]) == ".get" and e["recv"].args[0].args[0] == G]
    okk = is_newcoord(gst["index"]) and all(is_newcoord(e["recv"].args[1][0]) for e in apps) and bool(apps)
    rep.check(okk, R, "%s@%d" % (where, gst.line), "entries are gathered under their (mapped) VALUE: mapping.get(coords[0], coords[0])", "", "gathering key is %s" % tm.show(gst["index"])[:60],
              witness={"inputs": "any 2-D index: rows are gathered per column number / per unmapped value"})
    k0p = lambda x: x.op == "sub" and x.args[0].op == "dkey" and tm.is_const(x.args[1], 0)
    getp = lambda x: x.op == "call" and tm.callee_name(x) == ".get" and x.args[0].args[0] == M
    okpol = polarity_ok(gst["index"], k0p, getp)
    nc_terms = [y for e in [gst] + apps for c, pol in flat_guards(e.guards) if cmp_nc(c, is_newcoord) for y in c.args[1:] if is_nc(y)]
    okpol = okpol and bool(nc_terms) and all(polarity_ok(y, lambda a: a == common, getp) for y in nc_terms)
    rep.check(okpol, R, "%s@%d" % (where, gst.line), "values and the common value go through the mapping exactly when one is given", "", "a `mapping is None` test is inverted: the mapping is applied when absent / ignored when given",
              witness={"inputs": "collapsed(precedence, mapping={...}): values are compared unmapped"})
    okn = all(holds_eq(flat_guards(e.guards), is_newcoord) is False for e in [gst] + apps)
    rep.check(okn, R, "%s@%d" % (where, gst.line), "entries of the new common value are NOT gathered", "guard new_coord != new_common", "the gathering is not guarded by new_coord != new_common (or the test is inverted)",
              witness={"inputs": "M.collapsed([1, 0, -1]) with common 0: rows are gathered only for the common value, every other value is lost"})
    okv = all(a in I.heap and I.heap[a].get("elts") and all(x.op == "dval" and x.args[0] == self_t for x in I.heap[a]["elts"]) for a in tm.alts(gst["value"])) and all(e["args"][0].op == "dval" for e in apps)
    rep.check(okv, R, where, "what is gathered are the entries' row-id arrays", "", "gathered values are not the entries' row ids")
    # ---- the main loop
    L3 = [lid for lid, li in I.loopinfo.items() if li.get("iter") is not None and li["iter"].op == "call" and tm.callee_name(li["iter"]) == "builtins.reversed"]
    if len(L3) != 1:
        rep.undecided(R, where, "collapsed: main loop", "expected one loop over reversed(...), found %d" % len(L3))
        return
    L3 = L3[0]
    it = I.loopinfo[L3]["iter"]
    rep.check(it.args[1] == (tm.T("sub", P, tm.T("slice", tm.NONE, tm.const(-1), tm.NONE)),), R, where, "the loop runs over reversed(precedence[:-1]): lowest precedence first, so that higher ones overwrite", "",
              "the loop runs over %s" % tm.show(it)[:50], witness={"inputs": "M.collapsed([1, 0, -1]): a row holding both 1 and 0 gets 0"})
    coord = tm.T("iter", it, L3)
    is_coord = lambda t: t == coord
    is_last = lambda t: t == last

    def from_G(idx, keypred):
        """idx is an element of G.get(<key>, [...])"""
        if idx.op != "iter":
            return False
        src = idx.args[0]
        return src.op == "call" and tm.callee_name(src) == ".get" and src.args[0].args[0] == G and src.args[1] and keypred(src.args[1][0])

    sts = [e for e in I.events if e.kind == "store_sub" and not e.stack and e["base"] in (out, cc)]
    a = [e for e in sts if e["base"] == out and e["index"].op == "cmp"]
    b = [e for e in sts if e["base"] == out and e["index"].op == "iter"]
    c0 = [e for e in sts if e["base"] == cc and L3 not in e.loops]
    d = [e for e in sts if e["base"] == cc and L3 in e.loops]
    if not (len(a) == 1 and len(b) == 1 and len(c0) == 1 and len(d) == 1):
        rep.undecided(R, where, "collapsed: writes", "expected 2 writes into the output and 2 decrements of the counter, found %d/%d/%d/%d" % (len(a), len(b), len(c0), len(d)))
        return
    a, b, c0, d = a[0], b[0], c0[0], d[0]
    W = lambda e: "%s@%d" % (where, e.line)
    wit = {"inputs": "a 2-D index with common 0 and rows [-1,-1], [1,-1], [0,0]: collapsed([1, 0, -1]) must give -1, 1, 0"}
    # (a) the common value's turn
    ia = a["index"]
    oka = ia.args[0] == "!=" and cc in ia.args[1:] and any(tm.is_const(x, 0) for x in ia.args[1:]) and a["value"] == coord and holds_eq(flat_guards(a.guards), is_coord) is True
    rep.check(oka, R, W(a), "when the loop reaches the common value: rows whose counter is still non-zero (a column not explained by lower precedences) take it", "output[common_count != 0] = coord under coord == new_common",
              "this write is %s[%s] = %s under %s" % ("output", tm.show(ia)[:30], tm.show(a["value"])[:20], holds_eq(flat_guards(a.guards), is_coord)), witness=wit)
    # (b) ordinary values
    okb = from_G(b["index"], is_coord) and b["value"] == coord and holds_eq(flat_guards(b.guards), is_coord) is False
    rep.check(okb, R, W(b), "any other value is written to the rows gathered for it", "output[rows of coord] = coord under coord != new_common", "index %s, value %s, guard %s" % (tm.show(b["index"])[:40], tm.show(b["value"])[:20], holds_eq(flat_guards(b.guards), is_coord)), witness=wit)
    # decrements are by one
    def dec1(e):
        v = e["value"]
        return e["aug"] == "-" and v.op == "binop" and v.args[0] == "-" and tm.is_const(v.args[2], 1)
    rep.check(dec1(c0) and dec1(d), R, where, "the counter is decremented by one per (row, column) explained", "", "a decrement is not `-= 1`", witness=wit)
    # (c) the last precedence, when it is not the common value
    okc = from_G(c0["index"], is_last) and holds_eq(flat_guards(c0.guards), is_last) is False
    rep.check(okc, R, W(c0), "if the last precedence is not the common value, its rows are counted as explained before the loop", "for rows in gathered[precedence[-1]]: common_count[rows] -= 1 under default != new_common",
              "index %s under %s" % (tm.show(c0["index"])[:40], holds_eq(flat_guards(c0.guards), is_last)), witness=wit)
    # (d) values below the common value
    gd = flat_guards(d.guards)
    flag_atoms = [(c, pol) for c, pol in gd if not cmp_nc(c, is_coord) and (c.op in ("phi", "ifexp", "loopvar") or tm.contains(c, lambda x: x.op == "loopvar"))]
    okd = from_G(d["index"], is_coord) and holds_eq(gd, is_coord) is False and len(flag_atoms) == 1 and flag_atoms[0][1] is False
    rep.check(okd, R, W(d), "rows of a value written BEFORE the common value's turn are counted as explained", "common_count[rows] -= 1 while the common value has not been written yet",
              "index %s, guards %s" % (tm.show(d["index"])[:40], [(tm.show(c)[:30], p) for c, p in gd][:3]), witness=wit)
    # the flag: False iff the last precedence is not the common value; set when the common value is written
    if flag_atoms:
        fl = flag_atoms[0][0]
        be = None
        for (nm, lid), v in I.backedge.items():
            if lid == L3 and v.op == "ifexp" and cmp_nc(v.args[0], is_coord):
                be = v
        okf = be is not None and ((be.args[0].args[0] == "==" and be.args[1] == tm.TRUE) or (be.args[0].args[0] == "!=" and be.args[2] == tm.TRUE))
        init_ok = False
        for x in tm.walk(fl):
            if x.op == "ifexp" and cmp_nc(x.args[0], is_last):
                ne = x.args[0].args[0] == "!="
                init_ok = (x.args[1] == tm.FALSE if ne else x.args[2] == tm.FALSE) and tm.contains(fl, lambda y: y == tm.TRUE)
        rep.check(bool(okf and init_ok), R, where, "the 'common value written' flag starts False exactly when the last precedence is not the common value and becomes True at the common value's turn", "",
                  "flag initial/back-edge structure differs", witness=wit)
    # result
    rets = [v for v, g in fr.returns if v.op == "call"]
    rep.check(any(tm.callee_name(v) in (".from_array", "iindexes:iindex.from_array") and v.args[1] and v.args[1][0] == out for v in rets), R, where, "the result is from_array(output): the library picks the new common value", "", "the output array is not what is returned")


CATEGORY_PARAMS = {"iindex.shift_common": ("new_common",), "column_stack": ("new_common",), "iindex.from_array": ("common",), "iindex.common_rowids": ("colindex",)}


def rule_m(prog, rep):
    n = 0
    for qual, names in CATEGORY_PARAMS.items():
        fi = prog.func("iindexes", qual)
        I = Interp(prog, hints.param_types_for("iindexes"), hints.FIELD_TYPES, inline=False)
        I.run(fi)
        for nm in names:
            if nm not in fi.params():
                rep.undecided("R-C06-m", fi.fq, "parameter %s" % nm, "parameter not found (renamed?)")
                continue
            p = tm.param(nm)
            n += 1
            bad = None
            for e in I.events:
                if e.stack:
                    continue
                for c, pol in flat_guards(e.guards):
                    if c == p:
                        bad = (e, "used as a condition")
                for v in e.d.values():
                    if isinstance(v, tm.T):
                        for x in tm.walk(v):
                            if x.op == "bool" and p in x.args[1:]:
                                bad = (e, "operand of `%s`" % x.args[0])
                            if x.op == "ifexp" and x.args[0] == p:
                                bad = (e, "condition of a conditional expression")
                            if x.op == "unop" and x.args[0] == "not" and x.args[1] == p:
                                bad = (e, "operand of `not`")
            if bad:
                rep.violated("R-C06-m", "%s@%d" % (fi.fq, bad[0].line), "%s: optional parameter %s" % (qual, nm),
                             "%s is tested by truthiness (%s): an explicit 0 is treated as 'not given'" % (nm, bad[1]),
                             witness={"inputs": "column_stack([a, b], new_common=0) with b's common value 7: b's common rows read 0 instead of 7" if nm == "new_common" else "%s=0" % nm})
            else:
                rep.proved("R-C06-m", fi.fq, "%s: optional parameter %s" % (qual, nm), "only compared with `is None` / by value")
    rep.floor("R-C06-m", 4, n)


def rule_l(prog, rep, RID="R-C06-l"):
    fi = prog.func("iindexes", "iindex.collapsed")
    I = Interp(prog, hints.param_types_for("iindexes"), hints.FIELD_TYPES, inline=False)
    I.run(fi)
    where = fi.fq
    fulls = [e for e in I.events if e.kind == "call" and e["name"] in ("numpy.full", "numpy.empty", "numpy.zeros") and not e.stack
             and any(a.op == "call" and tm.callee_name(a) == "iindexes:fit_dtype" and a.args[1] and a.args[1][0].op == "call" and tm.callee_name(a.args[1][0]) in ("builtins.max", "numpy.max")
                     for a in tm.alts(dict(e["kwargs"]).get("dtype", tm.NONE)))]
    if len(fulls) != 1:
        rep.undecided(RID, where, "collapsed: output array", "expected one array whose dtype comes from fit_dtype, found %d" % len(fulls))
        return
    out = fulls[0]["result"]
    dt = [a for a in tm.alts(dict(fulls[0]["kwargs"])["dtype"]) if a.op == "call" and tm.callee_name(a) == "iindexes:fit_dtype"][0]
    mx = dt.args[1][0] if dt.args[1] else None
    X = mx.args[1][0] if mx is not None and mx.op == "call" and tm.callee_name(mx) in ("builtins.max", "numpy.max") and mx.args[1] else None
    if X is None:
        rep.undecided(RID, where, "collapsed: dtype bounds", "fit_dtype's first argument is not max(<collection>)")
        return

    def base_of(v):
        while True:
            if v.op == "iter":
                v = v.args[0]
            elif v.op == "call" and (tm.callee_name(v) or "") in ("builtins.reversed", "builtins.list", "builtins.tuple", "builtins.sorted", "builtins.set") and v.args[1]:
                v = v.args[1][0]
            elif v.op == "sub":
                v = v.args[0]
            else:
                return v

    def parts(x):
        if x.op == "binop" and x.args[0] == "+":
            return parts(x.args[1]) + parts(x.args[2])
        return [x]

    def covered(v):
        """'yes' | 'no' | 'unknown'"""
        b = base_of(v)
        res = "unknown"
        for p in parts(X):
            if p == b or base_of(p) == b:
                return "yes"
            if p.op == "alloc" and p in I.heap and any(el == v for el in I.heap[p].get("elts", [])):
                return "yes"
            if p.op == "comp" and p.args[0] in ("list", "gen", "set"):
                lids = p.args[2]
                src = I.loopinfo[lids[0]].get("iter") if lids else None
                if src is not None and base_of(src) == b:
                    if any(I.loopinfo[l].get("conds") for l in lids):
                        res = "no"
                    elif p.args[1].op == "iter":
                        return "yes"
        return res

    written = [("fill value", fulls[0]["args"][1], fulls[0])] if len(fulls[0]["args"]) > 1 else []
    for e in I.events:
        if e.kind == "store_sub" and not e.stack and e["base"] == out:
            written.append(("value written at line %d" % e.line, e["value"], e))
    n = 0
    for label, v, e in written:
        n += 1
        c = covered(v)
        w = "%s@%d" % (where, e.line)
        cons = "collapsed: %s %s is within the bounds given to fit_dtype" % (label, tm.show(v)[:30])
        if c == "yes":
            rep.proved(RID, w, cons, "an element of the collection whose max/min size the dtype")
        elif c == "no":
            rep.violated(RID, w, cons, "the dtype is sized from a FILTERED subset of the codes, but this value is written whether or not it passed the filter (the common value is never among the gathered codes, yet it is written when it is listed before the last precedence)",
                         witness={"inputs": "a 2-D index with common -1: collapsed([1, -1, 0]) sizes the output as uint8 and then writes -1 (OverflowError, or 255 on NumPy 1.x)"})
        else:
            rep.undecided(RID, w, cons, "cannot relate the written value to the collection %s" % tm.show(X)[:40])
    rep.floor(RID, 3, n)


def rule_d(prog, rep):
    fi = prog.func("iindexes", "column_stack")
    I = Interp(prog, hints.param_types_for("iindexes"), hints.FIELD_TYPES, inline=False)
    I.run(fi)
    ctx = own.OwnCtx(I)
    calls = [ev for ev in I.events if ev.kind == "call" and ev["method"] == "shift_common" and ev["args"]]
    for ev in calls:
        rs = own.roots(ev["recv"], ctx)
        # with inlining off, ii.copy() is a call term: fresh by the table (iindex.copy analysed under R-C06-b)
        recv_alts = tm.alts(ev["recv"])
        fresh = all(a.op == "call" and tm.callee_name(a) in (".copy", "iindexes:iindex.copy") for a in recv_alts)
        rep.check(fresh, "R-C06-d", "%s@%d" % (fi.fq, ev.line), "receiver of shift_common(new_common) is a copy", "ii.copy()",
                  "the caller's own index is re-encoded in place: %s" % tm.show(ev["recv"])[:60],
                  witness={"history": "column_stack([a, b]) with different common values changes b"})
    rep.floor("R-C06-d", 1, len(calls))


def _appends(I, lid_filter=None):
    return [e for e in I.events if e.kind == "call" and e["method"] == "append" and not e.stack and e["recv"] is not None and e["recv"].op == "alloc"]


def _case(ev, elem):
    """Which kind of `order` a guarded event belongs to: 'none' | 'int' | 'list' | None"""
    none = isint = None
    for c, pol in ev.guards:
        if c.op == "cmp" and c.args[0] == "is" and c.args[1] == elem and c.args[2] == tm.NONE:
            none = pol
        if c.op == "cmp" and c.args[0] == "is" and c.args[1].op == "call" and tm.callee_name(c.args[1]) == "builtins.type" and c.args[1].args[1] == (elem,) and tm.dotted(c.args[2]) == "builtins.int":
            isint = pol
        if c.op == "call" and tm.callee_name(c) == "builtins.isinstance" and c.args[1][0] == elem and tm.dotted(c.args[1][1]) == "builtins.int":
            isint = pol
    if none is True:
        return "none"
    if none is False and isint is True:
        return "int"
    if none is False and isint is False:
        return "list"
    return None


def rule_e(prog, rep):
    fi = prog.func("iindexes", "iindex.sliced")
    I = Interp(prog, hints.param_types_for("iindexes"), hints.FIELD_TYPES, inline=False)
    I.run(fi)
    where = fi.fq
    self_t = tm.param("self")
    loops = [(lid, li) for lid, li in I.loopinfo.items() if li.get("kind") == "for" and li.get("iter") is not None and li["iter"].op == "call" and tm.callee_name(li["iter"]) == "builtins.enumerate"]
    if len(loops) != 2:
        rep.undecided("R-C06-e", where, "sliced schema", "expected two enumerate(orders, 1) loops (shape pass, entry pass), found %d" % len(loops))
        return
    for lid, li in loops:
        it = li["iter"]
        start = it.args[1][1] if len(it.args[1]) > 1 else tm.kwarg(it, "start", tm.const(0))
        rep.check(tm.is_const(start, 1), "R-C06-e", where, "axes are enumerated from 1 (axis 0 is the row axis)", "enumerate(orders, 1)", "enumeration starts at %s: requested axes are shifted" % tm.show(start),
                  witness={"inputs": "idx.sliced([1, 0]) on a 2-D index slices the wrong axis"})
    table = {}
    problems = []
    for lid, li in loops:
        orders = li["iter"].args[1][0]
        elem = tm.T("iter", orders, lid)
        idx = tm.T("enumidx", orders, lid, tm.const(1))
        in_entries = any(l != lid for e in I.events if lid in e.loops for l in e.loops)
        passname = "entry" if in_entries else "shape"
        for e in _appends(I):
            if lid not in e.loops:
                continue
            case = _case(e, elem)
            if case is None:
                problems.append("append at line %d not under a recognised order test" % e.line)
                continue
            table[(passname, case)] = (e["args"][0], e, elem, idx)
        for e in I.events:
            if e.kind == "break" and lid in e.loops:
                case = _case(e, elem)
                table[(passname, case, "break")] = e
    if problems:
        rep.undecided("R-C06-e", where, "sliced schema", "; ".join(problems))
        return

    def expect(key, pred, okd, badd, wit):
        got = table.get(key)
        if got is None:
            rep.violated("R-C06-e", where, "sliced: %s pass, order %s" % key[:2], "nothing is appended for this case: %s" % badd, witness=wit)
            return
        val, e, elem, idx = got
        rep.check(pred(val, e, elem, idx), "R-C06-e", "%s@%d" % (where, e.line), "sliced: %s pass, order %s" % key[:2], okd, "%s (found %s)" % (badd, tm.show(val)[:50]), witness=wit)

    shape = tm.T("attr", self_t, "shape")
    expect(("shape", "none"), lambda v, e, el, ix: v == tm.T("sub", shape, ix), "extent kept: self.shape[axis]", "extent of an unsliced axis is not self.shape[axis]", {"inputs": "sliced(None, 0) on a 3-D index"})
    expect(("shape", "list"), lambda v, e, el, ix: v.op == "call" and tm.callee_name(v) == "builtins.len" and v.args[1] == (el,), "extent = len(order)", "extent of a list-sliced axis is not len(order)", {"inputs": "sliced([2, 0])"})
    rep.check(("shape", "int") not in table, "R-C06-e", where, "sliced: shape pass, order int", "axis dropped", "an integer order must drop the axis from the shape")
    expect(("entry", "none"), lambda v, e, el, ix: v.op == "sub" and v.args[0].op == "dkey" and v.args[1] == ix, "coordinate kept", "coordinate of an unsliced axis is not copied", {"inputs": "sliced(None, 1)"})

    def list_ok(v, e, el, ix):
        coord = tm.T("sub", [x for x in tm.walk(v) if x.op == "dkey"][0], ix) if tm.contains(v, lambda x: x.op == "dkey") else None
        okv = v.op == "call" and tm.callee_name(v) == ".index" and v.args[0].args[0] == el and coord is not None and v.args[1] == (coord,)
        okg = any(c.op == "cmp" and c.args[0] == "in" and pol and c.args[1] == coord and c.args[2] == el for c, pol in e.guards)
        return okv and okg

    expect(("entry", "list"), list_ok, "new coordinate = order.index(coordinate), kept iff coordinate in order", "list order must map a coordinate to its position in the requested order, only when it is requested",
           {"inputs": "sliced([2, 0]): column 2 must become column 0"})
    rep.check(("entry", "int") not in table, "R-C06-e", where, "sliced: entry pass, order int", "coordinate dropped", "an integer order must drop the coordinate")
    bi = table.get(("entry", "int", "break"))
    okb = bi is not None and any(c.op == "cmp" and c.args[0] == "==" and not pol and any(a.op == "sub" and a.args[0].op == "dkey" for a in c.args[1:]) for c, pol in bi.guards)
    rep.check(okb, "R-C06-e", where, "sliced: integer order keeps exactly the entries whose coordinate equals it", "break when coord != order", "entries with another coordinate are not dropped",
              witness={"inputs": "sliced(1) on a 2-D index returns rows of every column"})
    bl = table.get(("entry", "list", "break"))
    rep.check(bl is not None and any(c.op == "cmp" and c.args[0] == "in" and not pol for c, pol in bl.guards), "R-C06-e", where, "sliced: list order drops entries whose coordinate is not requested", "break when coord not in order", "unrequested slices are kept")
    st = [e for e in I.events if e.kind == "store_sub" and not e.stack and e["value"].op == "dval"]
    rep.check(len(st) == 1 and any(tm.contains(c, lambda x: x.op in ("loopvar", "phi", "ifexp")) for c, pol in st[0].guards if pol), "R-C06-e", where, "an entry is stored iff every requested axis kept it", "", "the store is not guarded by the keep flag")


def rule_f(prog, rep):
    fi = prog.func("iindexes", "column_stack")
    I = Interp(prog, hints.param_types_for("iindexes"), hints.FIELD_TYPES, inline=False)
    fr = I.run(fi)
    where = fi.fq
    st = [e for e in I.events if e.kind == "store_sub" and not e.stack and e["base"].op == "alloc"]
    if len(st) != 2:
        rep.undecided("R-C06-f", where, "column_stack schema", "expected two entry stores (2-D and 1-D inputs), found %d" % len(st))
        return
    ivar = None
    for e in st:
        key = e["index"]
        two_d = any(c.op == "cmp" and c.args[0] == ">" and pol for c, pol in e.guards if tm.contains(c, lambda x: x.op == "attr" and x.args[1] == "shape"))
        if key.op != "tuple" or len(key.args) != 2:
            rep.undecided("R-C06-f", where, "column_stack key", "key is %s" % tm.show(key)[:50])
            continue
        k0, k1 = key.args
        ok0 = k0.op == "sub" and k0.args[0].op == "dkey" and tm.is_const(k0.args[1], 0)
        if two_d:
            ok1 = k1.op == "binop" and k1.args[0] == "+" and k1.args[1].op == "sub" and k1.args[1].args[0].op == "dkey" and tm.is_const(k1.args[1].args[1], 1)
            off = k1.args[2] if ok1 else None
        else:
            ok1 = True
            off = k1
        offs_ok = off is not None and any(x.op == "loopvar" for x in tm.walk(off)) or (off is not None and tm.is_const(off, 0))
        rep.check(ok0 and ok1 and offs_ok, "R-C06-f", "%s@%d" % (where, e.line), "column_stack: %s input -> key (value, %s)" % ("2-D" if two_d else "1-D", "own column + offset" if two_d else "offset"),
                  "", "key is %s" % tm.show(key)[:80], witness={"inputs": "column_stack([a2d, b1d]): b's column lands on one of a's"})
        if off is not None:
            for x in tm.walk(off):
                if x.op == "loopvar":
                    ivar = x
    if ivar is None:
        rep.undecided("R-C06-f", where, "column offset", "running offset variable not found")
        return
    be = I.backedge.get((ivar.args[0], ivar.args[1]))
    incs = set()
    for a in tm.alts(be) if be is not None else []:
        if a.op == "binop" and a.args[0] == "+":
            incs.add(tm.show(a.args[2]))
    want = {"1"}
    ok = be is not None and any("shape[1]" in x for x in incs) and "1" in incs and len(incs) == 2
    rep.check(ok, "R-C06-f", where, "offset advances by the input's column count (shape[1]) or by 1 for a 1-D input", "increments: %s" % sorted(incs), "increments are %s" % sorted(incs),
              witness={"inputs": "column_stack([a (3 columns), b]): b must become column 3"})
    rets = [v for v, g in fr.returns]
    okr = False
    for v in rets:
        for ev in I.events:
            if ev.kind == "call" and ev["result"] == v and len(ev["args"]) == 3:
                sh = ev["args"][2]
                okr = sh.op == "tuple" and len(sh.args) == 2 and sh.args[0].op == "sub" and tm.is_const(sh.args[0].args[1], 0) and sh.args[0].args[0].op == "attr" and sh.args[0].args[0].args[1] == "shape" and tm.contains(sh.args[0].args[0].args[0], lambda x: x == tm.param("iindexes")) and tm.contains(sh.args[1], lambda x: (x.op == "loopvar" and x.args[0] == ivar.args[0]) or x == tm.const(0))
    rep.check(okr, "R-C06-f", where, "result shape = (row count of the inputs, total number of columns)", "", "result shape is not (rows, columns stacked)")


def rule_g(prog, rep):
    fi = prog.func("iindexes", "iindex.append")
    I = Interp(prog, hints.param_types_for("iindexes"), hints.FIELD_TYPES, inline=False)
    I.run(fi)
    where = fi.fq
    self_t, other = tm.param("self"), tm.param("other")
    old_rows = tm.T("sub", tm.T("attr", self_t, "shape"), tm.const(0))
    st = [e for e in I.events if e.kind == "store_sub" and e["base"] == self_t]
    n = 0
    for e in st:
        for a in tm.alts(e["value"]):
            shifted = [x for x in tm.walk(a) if x.op == "binop" and x.args[0] == "+" and (tm.contains(x.args[1], lambda y: y == other) or tm.contains(x.args[2], lambda y: y == other))]
            if not shifted:
                rep.violated("R-C06-g", "%s@%d" % (where, e.line), "append: rows taken from other are shifted", "other's row ids are stored without adding the receiver's row count",
                             witness={"inputs": "append to a non-empty index: the new rows overwrite rows 0.."})
                continue
            x = shifted[0]
            sc = x.args[2] if tm.contains(x.args[1], lambda y: y == other) else x.args[1]
            n += 1
            rep.check(tm.contains(sc, lambda y: y == old_rows) and not tm.contains(sc, lambda y: y == other), "R-C06-g", "%s@%d" % (where, e.line), "append: shift = receiver's row count before the append",
                      "", "shift is %s" % tm.show(sc)[:60], witness={"inputs": "append an index with a different row count"})
    sh = [e for e in I.events if e.kind == "store_attr" and e["base"] == self_t and e["attr"] == "shape"]
    oks = False
    if len(sh) == 1:
        v = sh[0]["value"]
        first = v.args[0] if v.op == "tuple" else (v.args[1].args[0] if (v.op == "binop" and v.args[0] == "+" and v.args[1].op == "tuple" and len(v.args[1].args) == 1) else None)
        restok = v.op == "tuple" or v.args[2] == tm.T("sub", tm.T("attr", self_t, "shape"), tm.T("slice", tm.const(1), tm.NONE, tm.NONE))
        orows = tm.T("sub", tm.T("attr", other, "shape"), tm.const(0))
        oks = restok and first in (tm.T("binop", "+", old_rows, orows), tm.T("binop", "+", orows, old_rows))
    rep.check(oks, "R-C06-g", where, "append: new shape = (old rows + other's rows,) + remaining extents", "", "shape after append is %s" % (sh and tm.show(sh[0]["value"])[:80]))
    # early exits: other's common rows (entry-less rows) must still be appended
    for ev in I.events:
        if ev.kind != "return" or ev.stack or ev.node.__class__.__name__ != "Return":
            continue
        g = flat_guards(ev.guards)
        w = "%s@%d" % (where, ev.line)
        no_rows = any((pol and c.op == "cmp" and c.args[0] == "==" and tm.is_const(c.args[2], 0) and c.args[1] == tm.T("sub", tm.T("attr", other, "shape"), tm.const(0)))
                      or (not pol and c == tm.T("sub", tm.T("attr", other, "shape"), tm.const(0))) for c, pol in g)
        entries_only = any((c == other and not pol) or (c.op == "call" and tm.callee_name(c) == "builtins.len" and c.args[1][0] == other and not pol)
                           or (c.op == "cmp" and c.args[0] == "==" and pol and c.args[1].op == "call" and tm.callee_name(c.args[1]) == "builtins.len" and c.args[1].args[1][0] == other and tm.is_const(c.args[2], 0)) for c, pol in g)
        if no_rows:
            rep.proved("R-C06-g", w, "append: early return", "taken only when other has no rows")
        elif entries_only:
            rep.violated("R-C06-g", w, "append: early return when other has no explicit entries",
                         "an index without entries still has rows (all equal to its common value); when other.common differs from the receiver's they must be appended as entries",
                         witness={"inputs": "iindex.from_array([1, 1, 2, 1]).append(iindex({}, 7, (3,))) reads [1,1,2,1,1,1,1] instead of [1,1,2,1,7,7,7]"})
        else:
            rep.undecided("R-C06-g", w, "append: early return", "cannot decide whether rows of other are lost on this path")
    rep.floor("R-C06-g", 8, n)


def rule_h(prog, rep):
    fi = prog.func("iindexes", "iindex.reindexed")
    I = Interp(prog, hints.param_types_for("iindexes"), hints.FIELD_TYPES, inline=False,
               oracle=lambda t: True if (t.op == "call" and tm.callee_name(t) == "builtins.hasattr") else None)
    fr = I.run(fi)
    where = fi.fq
    self_t = tm.param("self")
    st = [e for e in I.events if e.kind == "store_sub" and not e.stack and e["base"].op == "alloc" and all(a.op == "alloc" and a.args[0] == "list" for a in tm.alts(e["value"]))]
    if len(st) != 1:
        rep.undecided("R-C06-h", where, "reindexed schema", "expected one gather store, found %d" % len(st))
        return
    key = st[0]["index"]
    ok = False
    for a in tm.alts(key):
        if a.op == "binop" and a.args[0] == "+" and a.args[1].op == "tuple" and len(a.args[1].args) == 1:
            nc, rest = a.args[1].args[0], a.args[2]
            okrest = rest.op == "sub" and rest.args[0].op == "dkey" and rest.args[1] == tm.T("slice", tm.const(1), tm.NONE, tm.NONE)
            nc_alts = tm.alts(nc)
            okmap = any(x.op == "call" and tm.callee_name(x) == ".get" and tm.param("mapping") in tm.alts(x.args[0].args[0]) and x.args[1] and x.args[1][0].op == "sub" and tm.is_const(x.args[1][0].args[1], 0) for x in nc_alts)
            okkeep = any(x.op == "sub" and x.args[0].op == "dkey" and tm.is_const(x.args[1], 0) for x in nc_alts) or any(x.op == "call" and tm.callee_name(x) == ".get" and len(x.args[1]) == 2 for x in nc_alts)
            ok = okrest and okmap and okkeep
    rep.check(ok, "R-C06-h", "%s@%d" % (where, st[0].line), "reindexed: key = (mapping.get(c0) or c0,) + coords[1:]", "", "new key is %s" % tm.show(key)[:100],
              witness={"inputs": "2-D index: reindexed({1: 7}) must keep every entry's column"})
    ctor = [e for e in I.events if e.kind == "call" and e["result"] is not None and any(a.op == "alloc" and a.args[0] == "obj:iindex" for a in tm.alts(e["result"])) and len(e["args"]) == 3]
    okc = False
    for e in ctor:
        c, sh = e["args"][1], e["args"][2]
        okc = sh == tm.T("attr", self_t, "shape") and c.op == "call" and tm.callee_name(c) == ".get" and c.args[1] and c.args[1][0] == tm.T("attr", self_t, "common") and len(c.args[1]) == 2 and c.args[1][1] == tm.T("attr", self_t, "common")
    rep.check(okc, "R-C06-h", where, "reindexed: result has the same shape and common = mapping.get(common, common)", "", "constructor arguments differ",
              witness={"inputs": "reindexed({0: 9}) on an index with common 0: the implicit rows must read 9"})


def _element_sources(idx, I):
    """idx = an element of a list (possibly fetched from a local dict with .get): the terms appended to such lists."""
    if idx.op != "iter":
        return []
    out = []

    def from_list(l):
        if l.op == "alloc" and l in I.heap:
            out.extend(I.heap[l].get("elts", []))
            return True
        return False

    for a in tm.alts(idx.args[0]):
        if from_list(a):
            continue
        if a.op == "call" and tm.callee_name(a) == ".get":
            d = a.args[0].args[0]
            for dd in tm.alts(d):
                if dd.op == "alloc" and dd in I.heap:
                    for item in I.heap[dd].get("items", []):
                        v = item[1]
                        for vv in tm.alts(v):
                            if not from_list(vv):
                                return []
                else:
                    return []
            for dflt in a.args[1][1:]:
                for x in tm.alts(dflt):
                    if not from_list(x):
                        return []
            continue
        return []
    return out


def rule_j(prog, rep):
    from sa.rowids import Analyzer
    ii = prog.cls("iindexes", "iindex")
    n = 0
    roots = [f for name, f in ii.methods.items() if not (name.startswith("_") and not name.startswith("__"))] + [prog.func("iindexes", "column_stack")]
    for fi in roots:
        if getattr(fi, "node", None) is None:
            continue
        I = Interp(prog, hints.param_types_for("iindexes"), hints.FIELD_TYPES, inline=False)
        try:
            I.run(fi)
        except Exception:
            continue
        an = None
        for e in I.events:
            if e.kind != "store_sub" or e.stack or e["aug"] is None:
                continue
            base = e["base"]
            if not any(b.op == "call" and (tm.callee_name(b) or "").startswith("numpy.") for b in tm.alts(base)):
                continue  # dict / list counters: scalar keys
            idx = e["index"]
            if idx.op in ("const", "enumidx") or (idx.op == "sub" and idx.args[0].op == "dkey"):
                continue
            n += 1
            an = an or Analyzer(I, fi)
            where = "%s@%d" % (fi.fq, e.line)
            cons = "%s: %s[%s] %s= ..." % (fi.qualname, tm.show(base)[:25], tm.show(idx)[:40], e["aug"])
            joined = [x for x in tm.walk(idx) if x.op == "call" and (tm.callee_name(x) or "") in ("numpy.concatenate", "numpy.append", "numpy.hstack", "numpy.r_")]
            f = None
            try:
                f = an.facts(idx, list(e.guards))
            except Exception:
                f = None
            if (f is None or not f.su) and not joined:
                # an element of a list kept in a local dict: every array ever put into such a list
                srcs = _element_sources(idx, I)
                if srcs:
                    fs = []
                    for x in srcs:
                        try:
                            fs.append(an.facts(x, list(e.guards)))
                        except Exception:
                            fs.append(None)
                    if all(g is not None and g.su for g in fs):
                        f = fs[0]
            if joined:
                rep.violated("R-C06-j", where, cons, "the index array is a concatenation of several entries' row ids: a row present in two of them is updated once, not twice",
                             witness={"inputs": "2-D index with common 0, collapsed([1, 0, -1]), row [-1, -1]: the count of columns below the common value is decremented once instead of twice and the row gets 0 instead of -1"})
            elif f is not None and f.su:
                rep.proved("R-C06-j", where, cons, "index is one entry's row ids (strictly increasing, hence duplicate-free): %s" % "; ".join(f.why[:1]))
            else:
                rep.undecided("R-C06-j", where, cons, "cannot show that the index array is duplicate-free")
    rep.floor("R-C06-j", 2, n)


def rule_s(prog, rep):
    """R-C06-s: the set-update methods hand the result of intersection() / difference() / union() to set_if; those wrappers
    return None for the EMPTY set, so under `value is None` (and under `len(value) == 0`) set_if must remove the key."""
    ii = prog.cls("iindexes", "iindex")
    fi = ii.methods.get("set_if")
    if fi is None:
        rep.undecided("R-C06-s", "iindexes:iindex", "set_if", "method not found (anchor vanished)")
        return
    where = fi.fq
    # who passes a wrapper result (possibly None)?
    callers = []
    for meth in ("intersection_update", "difference_update", "union_update", "symmetric_difference_update"):
        f2 = ii.methods.get(meth)
        if f2 is None:
            continue
        I2 = Interp(prog, hints.param_types_for("iindexes"), hints.FIELD_TYPES, inline=False)
        I2.run(f2)
        for ev in I2.events:
            if ev.kind == "call" and ev["method"] == "set_if" and len(ev["args"]) >= 2:
                v = ev["args"][1]
                if tm.contains(v, lambda x: x.op == "call" and (tm.callee_name(x) or "") in ("set_operations:intersection", "set_operations:difference", "set_operations:union")):
                    callers.append("%s@%d" % (f2.qualname, ev.line))
    params = [a for a in fi.params() if a not in ("self", "cls")]
    if len(params) < 2:
        rep.undecided("R-C06-s", where, "set_if(key, value)", "signature not recognised")
        return
    key, value = tm.param(params[0]), tm.param(params[1])
    self_t = tm.param("self")
    for label, want_none in (("value is None (the wrappers' encoding of the empty set)", True), ("value has length 0", False)):
        def oracle(t, want_none=want_none):
            if t.op == "cmp" and t.args[0] in ("is", "is not") and value in t.args[1:] and tm.NONE in t.args[1:]:
                return (t.args[0] == "is") == want_none
            if not want_none:
                if t.op == "call" and tm.callee_name(t) == "builtins.len" and t.args[1] and t.args[1][0] == value:
                    return False  # len(value) is falsy: empty
                if t.op == "attr" and t.args[1] == "size" and t.args[0] == value:
                    return False
            if t == value:
                return False  # truthiness of value itself: None / empty are both falsy
            return None
        I = Interp(prog, hints.param_types_for("iindexes"), hints.FIELD_TYPES, inline=False, oracle=oracle)
        I.run(fi)
        removed = [e for e in I.events if (e.kind == "del_sub" and e["base"] == self_t and e["index"] == key)
                   or (e.kind == "call" and e["method"] in ("pop", "__delitem__") and e["recv"] == self_t and e["args"] and e["args"][0] == key)]
        stored = [e for e in I.events if e.kind == "store_sub" and e["base"] == self_t]
        cons = "set_if: %s -> the key is removed" % label
        if removed and not stored:
            rep.proved("R-C06-s", where, cons, "self.pop(key, ...) / del self[key] on this path")
        elif stored:
            rep.violated("R-C06-s", where, cons, "the (empty / None) value is stored instead of removing the key", witness={"history": "a.difference_update(b) where b covers every row of a category of a"})
        elif not callers:
            rep.undecided("R-C06-s", where, cons, "the key is not removed on this path, and no set-update method was found that passes a wrapper result to set_if")
        else:
            rep.violated("R-C06-s", where, cons,
                         "the key is left as it is: %s pass the result of intersection() / difference() straight to set_if, and those return None when the result is EMPTY - the entry keeps its old rows although the update removed all of them"
                         % ", ".join(sorted(set(callers))[:3]),
                         witness={"history": "a = from_array([1,0,0,0,2,0,0,1]); a.difference_update({(1,): [0, 7]}): to_array() still shows category 1 in rows 0 and 7"})


def main(tier):
    rep = core.Report("C06", level="other", rules=RULES, tier=tier,
                      declined="every sequence of index operations matches the NumPy model on the dense array (histories x values): not decidable by static analysis in reach; e.g. the collapsed() result for a precedence list that omits a present value is a value-level defect this check cannot see")
    rep.trusted_base = ["CPython ast", "symbolic walker", "NumPy summary table (sa/own.py)"]
    prog = Program()
    rule_a(prog, rep)
    rule_b(prog, rep)
    rule_c(prog, rep)
    rule_d(prog, rep)
    rule_e(prog, rep)
    rule_f(prog, rep)
    rule_g(prog, rep)
    rule_h(prog, rep)
    rule_j(prog, rep)
    rule_l(prog, rep)
    rule_m(prog, rep)
    rule_n(prog, rep)
    rule_p(prog, rep)
    rule_q(prog, rep)
    rule_s(prog, rep)
    rep.floor("R-C06-s", 2, sum(1 for o in rep.obls if o.rule == "R-C06-s"))
    # R-C06-r: an operation's result behaves like the array only if it is a well-formed index (sorted, unique, in-range,
    # non-empty row lists - the later set algebra and cube walks rest on it): the C07 analysis of every operation
    import c07
    sub7 = core.Report("C07", level="other", rules=c07.RULES, tier=tier)
    ii7 = prog.cls("iindexes", "iindex")
    st7 = {"sites": 0}
    for fi7 in [f for n7, f in ii7.methods.items() if n7 not in ("__init__",) and not (n7.startswith("_") and not n7.startswith("__"))] + [prog.func("iindexes", "column_stack")]:
        c07.analyse_root(prog, fi7, sub7, st7)
    c07.update_order_rule(prog, sub7)
    c07.update_clear_cases(prog, sub7)
    c07.complement_routine(prog, sub7)
    k7 = 0
    for o in sub7.obls:
        k7 += 1
        rep.add("R-C06-r", o.where, "[%s] %s" % (o.rule, o.construct), o.status, o.detail, True, o.witness)
    rep.floor("R-C06-r", 30, k7)
    rule_o(prog, rep)
    import c07
    sub7 = core.Report("C07", level="other", rules=c07.RULES, tier=tier)
    ii7 = prog.cls("iindexes", "iindex")
    stats7 = {"sites": 0}
    for name7, f7 in ii7.methods.items():
        if name7 != "__init__" and not (name7.startswith("_") and not name7.startswith("__")):
            c07.analyse_root(prog, f7, sub7, stats7)
    c07.analyse_root(prog, prog.func("iindexes", "column_stack"), sub7, stats7)
    k7 = 0
    for o in sub7.obls:
        if o.rule == "R-C07-c":
            k7 += 1
            rep.add("R-C06-k", o.where, "[%s] %s" % (o.rule, o.construct), o.status, o.detail, True, o.witness)
    rep.floor("R-C06-k", 20, k7)
    import c19
    sub = core.Report("C19", level="proof", rules=c19.RULES, tier=tier)
    c19.analyse(prog, sub, False)
    for o in sub.obls:
        if o.rule in ("R-C19-contain", "R-C19-coverage", "R-C19-sign", "R-C19-tree"):
            rep.add("R-C06-i", o.where, "[%s] %s" % (o.rule, o.construct), o.status, o.detail, True, o.witness)
    return rep.finish()


if __name__ == "__main__":
    core.run_main("C06", main)
