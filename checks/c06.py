#!/venv/bin/python
"""C06 - index operations track NumPy on the dense array over any history.

Declined: the NumPy-model equivalence of append / update / filtered / sliced / reindexed /
collapsed / column_stack over histories (values x histories; needs execution).
Decided (the statement's last sentence and one dtype clause):
  R-C06-a  operands other than the receiver are left unchanged, and non-mutating methods
           leave the receiver unchanged (engine F mod/ref, every overrider inlined);
  R-C06-b  explicitly requested copies (copy(), reindexed(copy=True), column_stack(copy=True),
           set_if(copy=True)) store only freshly allocated arrays;
  R-C06-c  the dtype chosen for collapsed output covers negative category values
           (fit_dtype called with a minimum whenever its argument is a category value);
  R-C06-d  column_stack changes the common value of a copy, never of its input.
"""
import os
import sys

sys.path.insert(0, os.path.dirname(os.path.dirname(os.path.abspath(__file__))))
import c17
from sa import core, hints, own, terms as tm
from sa.terms import T
from sa.pyfront import Program
from sa.symex import Interp

RULES = {
    "R-C06-a": "no method writes storage reachable from a non-receiver operand; non-mutating methods do not write the receiver either",
    "R-C06-b": "with the copy flag on, every array stored in the result is freshly allocated (shares no storage with the source)",
    "R-C06-c": "fit_dtype receives a minimum whenever its argument is a category value that may be negative",
    "R-C06-d": "column_stack calls shift_common(new_common) on a copy (FRESH receiver), not on a caller's index",
}
MUTATORS = {"append", "update", "union_update", "intersection_update", "difference_update", "shift_common", "set_if"}
NON_MUTATING = {"to_array", "to_dict", "copy", "filtered", "sliced", "slices1d", "reindexed", "collapsed", "get", "items", "common_rowids",
                "__eq__", "__ne__", "validate", "abscissae", "size", "sparsity", "nbytes", "ndim", "__str__", "from_array", "common_common"}


def rule_a(prog, rep):
    ii = prog.cls("iindexes", "iindex")
    stats = {"events": 0, "mods": 0, "diagnostic": {}, "exceptions": {}, "regions": 0, "shortcuts": 0}
    n = 0
    for name, fi in ii.methods.items():
        if name == "__init__":
            continue
        kind = "mutator" if name in MUTATORS else "pure"
        c17.analyse_root(prog, fi, kind, rep, stats, RA="R-C06-a", RB="R-C06-a", extra=False)
        n += 1
    c17.analyse_root(prog, prog.func("iindexes", "column_stack"), "pure", rep, stats, RA="R-C06-a", RB="R-C06-a", extra=False)
    n += 1
    rep.floor("R-C06-a", 22, n)
    rep.analysed["methods"] = n
    rep.analysed["write_events_classified"] = stats["mods"]


def stored_arrays(I, result, ctx):
    """(value term, event) pairs for the arrays that end up in the entries of a constructed index."""
    out = []
    for a in tm.alts(result):
        if a.op != "alloc":
            continue
        # the dict passed to the constructor
        for ev in I.events:
            if ev.kind == "call" and ev["result"] is not None and a in tm.alts(ev["result"]) and ev["args"]:
                ent = ev["args"][0]
                for e in tm.alts(ent):
                    if e.op == "alloc":
                        for k, v in I.heap.get(e, {}).get("items", []):
                            out.append(v)
                    elif e.op == "call" and tm.callee_name(e) == "builtins.dict" and e.args[1]:
                        src = e.args[1][0]
                        if src.op == "comp" and src.args[1].op == "tuple" and len(src.args[1].args) == 2:
                            out.append(src.args[1].args[1])
                        else:
                            out.append(src)
                    elif e.op == "comp" and e.args[0] == "dict":
                        out.append(e.args[1].args[1])
                    else:
                        out.append(e)
    return out


def rule_b(prog, rep):
    cases = [("iindex.copy", None), ("iindex.reindexed", "copy"), ("column_stack", "copy"), ("iindex.set_if", "copy")]
    n = 0
    for qual, flag in cases:
        fi = prog.func("iindexes", qual)

        def oracle(t, flag=flag):
            if flag and t == tm.param(flag):
                return True
            return None

        I = Interp(prog, hints.param_types_for("iindexes"), hints.FIELD_TYPES, oracle=oracle, max_depth=8)
        fr = I.run(fi, args=({flag: tm.TRUE} if flag else None))
        ctx = own.OwnCtx(I)
        where = fi.fq
        if qual == "iindex.set_if":
            vals = [ev["value"] for ev in I.events if ev.kind == "store_sub" and ev["base"] == tm.param("self")]
        else:
            res = fr.returns[0][0] if fr.returns else None
            vals = stored_arrays(I, res, ctx) if res is not None else []
        vals = [v for v in vals if not (v.op == "alloc" and v.args[0] == "list")]
        if not vals:
            rep.undecided("R-C06-b", where, "arrays stored in the copy", "could not determine what is stored in the result")
            continue
        bad = []
        for v in vals:
            rs = own.roots(v, ctx)
            if rs != {own.FRESH}:
                bad.append((v, rs))
        n += 1
        rep.check(not bad, "R-C06-b", where, "%s%s stores fresh arrays only" % (qual, "(copy=True)" if flag else "()"),
                  "%d stored value(s), all freshly allocated" % len(vals),
                  "a stored array may share storage with the source: %s has roots %s" % (tm.show(bad[0][0])[:60], sorted(bad[0][1])) if bad else "",
                  witness={"history": "copy, then mutate the copy's row ids in place: the source changes too"})
    rep.floor("R-C06-b", 4, n)


CATEGORY, NONNEG, UNKNOWN = "CATEGORY", "NONNEG", "UNKNOWN"


def value_class(t, I, depth=0):
    """Is an integer value a category id (may be negative) or a count/extent (non-negative)?"""
    if depth > 12:
        return UNKNOWN
    if t.op == "const":
        return NONNEG if isinstance(t.args[1], int) and t.args[1] >= 0 else CATEGORY
    if t.op == "call":
        nm = tm.callee_name(t)
        if nm in ("builtins.max", "builtins.min", "numpy.max", "numpy.amax", "builtins.sorted", "builtins.list", "builtins.tuple"):
            cs = [value_class(a, I, depth + 1) for a in t.args[1]]
            return CATEGORY if CATEGORY in cs else (NONNEG if cs and all(c == NONNEG for c in cs) else UNKNOWN)
        if nm == "builtins.len":
            return NONNEG
        if nm == ".values":
            return CATEGORY if tm.contains(t, lambda x: x.op == "param" and x.args[0] == "mapping") else UNKNOWN
        return UNKNOWN
    if t.op == "param":
        if t.args[0] in ("precedence", "mapping", "common", "new_common"):
            return CATEGORY
        return UNKNOWN
    if t.op == "attr":
        if t.args[1] == "common":
            return CATEGORY
        if t.args[1] in ("shape", "size", "ndim", "itemsize"):
            return NONNEG
        return UNKNOWN
    if t.op in ("sub", "unpack"):
        base = t.args[0]
        if base.op == "attr" and base.args[1] == "shape":
            return NONNEG
        if base.op == "sub" and base.args[0].op == "attr" and base.args[0].args[1] == "shape":
            return NONNEG
        # coords[0] of an index key
        if base.op in ("dkey", "iter"):
            return CATEGORY
        return value_class(base, I, depth + 1)
    if t.op in ("dkey",):
        return CATEGORY
    if t.op == "iter":
        return value_class(t.args[0], I, depth + 1)
    if t.op == "comp":
        return value_class(t.args[1], I, depth + 1)
    if t.op == "binop":
        cs = [value_class(a, I, depth + 1) for a in t.args[1:]]
        if t.args[0] == "+" and any(c == CATEGORY for c in cs):
            return CATEGORY
        return NONNEG if all(c == NONNEG for c in cs) else (CATEGORY if CATEGORY in cs else UNKNOWN)
    if t.op in ("phi", "ifexp"):
        cs = [value_class(a, I, depth + 1) for a in tm.alts(t)]
        return CATEGORY if CATEGORY in cs else (NONNEG if all(c == NONNEG for c in cs) else UNKNOWN)
    if t.op == "alloc":
        els = I.heap.get(t, {}).get("elts", [])
        cs = [value_class(a, I, depth + 1) for a in els]
        return CATEGORY if CATEGORY in cs else (NONNEG if cs and all(c == NONNEG for c in cs) else UNKNOWN)
    return UNKNOWN


def fit_dtype_sites(prog, quals, rep, rule, witness_for):
    """Every call of fit_dtype inside the given functions: a CATEGORY argument needs a minimum."""
    n = 0
    for qual in quals:
        fi = prog.func("iindexes", qual)
        I = Interp(prog, hints.param_types_for("iindexes"), hints.FIELD_TYPES, inline=False)
        I.run(fi)
        for ev in I.events:
            if ev.kind != "call" or ev["name"] != "iindexes:fit_dtype":
                continue
            n += 1
            arg = ev["args"][0] if ev["args"] else None
            kw = dict(ev["kwargs"])
            minarg = ev["args"][1] if len(ev["args"]) > 1 else kw.get("minval")
            cls = value_class(arg, I) if arg is not None else UNKNOWN
            where = "%s@%d" % (fi.fq, ev.line)
            cons = "fit_dtype(%s)" % _short_arg(arg)
            if cls == NONNEG:
                rep.proved(rule, where, cons, "argument is a count / extent: never negative, no minimum needed")
            elif cls == CATEGORY:
                ok = minarg is not None and minarg.op == "call" and tm.callee_name(minarg) in ("builtins.min", "numpy.min", "numpy.amin") and value_class(minarg, I) == CATEGORY
                rep.check(ok, rule, where, cons, "minimum of the same values is passed",
                          "the argument is the maximum of category values that may be negative, but no minimum is passed: an unsigned dtype is chosen",
                          witness=witness_for(qual))
            else:
                rep.undecided(rule, where, cons, "cannot classify the argument as category value or extent")
    return n


def _short_arg(arg):
    if arg is None:
        return ""
    names = sorted({x.args[0] for x in tm.walk(arg) if x.op == "param"} | {x.args[1] for x in tm.walk(arg) if x.op == "attr"})
    calls = [tm.callee_name(x).split(".")[-1] for x in tm.walk(arg) if x.op == "call" and tm.callee_name(x)]
    return "%s of %s" % ("/".join(calls[:2]) or "value", ",".join(names[:3]))


def rule_c(prog, rep):
    n = fit_dtype_sites(prog, ["iindex.collapsed"], rep, "R-C06-c",
                        lambda q: {"inputs": "the method's own docstring example: M.collapsed([1, 0, -1]) raises OverflowError"})
    rep.floor("R-C06-c", 2, n)


def rule_d(prog, rep):
    fi = prog.func("iindexes", "column_stack")
    I = Interp(prog, hints.param_types_for("iindexes"), hints.FIELD_TYPES, inline=False)
    I.run(fi)
    ctx = own.OwnCtx(I)
    calls = [ev for ev in I.events if ev.kind == "call" and ev["method"] == "shift_common" and ev["args"]]
    for ev in calls:
        rs = own.roots(ev["recv"], ctx)
        # with inlining off, ii.copy() is a call term: fresh by the table (iindex.copy analysed under R-C06-b)
        recv_alts = tm.alts(ev["recv"])
        fresh = all(a.op == "call" and tm.callee_name(a) in (".copy", "iindexes:iindex.copy") for a in recv_alts)
        rep.check(fresh, "R-C06-d", "%s@%d" % (fi.fq, ev.line), "receiver of shift_common(new_common) is a copy", "ii.copy()",
                  "the caller's own index is re-encoded in place: %s" % tm.show(ev["recv"])[:60],
                  witness={"history": "column_stack([a, b]) with different common values changes b"})
    rep.floor("R-C06-d", 1, len(calls))


def main(tier):
    rep = core.Report("C06", level="other", rules=RULES, tier=tier,
                      declined="every sequence of index operations matches the NumPy model on the dense array (histories x values): not decidable by static analysis in reach; e.g. the collapsed() result for a precedence list that omits a present value is a value-level defect this check cannot see")
    rep.trusted_base = ["CPython ast", "symbolic walker", "NumPy summary table (sa/own.py)"]
    prog = Program()
    rule_a(prog, rep)
    rule_b(prog, rep)
    rule_c(prog, rep)
    rule_d(prog, rep)
    return rep.finish()


if __name__ == "__main__":
    core.run_main("C06", main)
