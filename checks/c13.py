#!/venv/bin/python
"""C13 - extra axes are outermost, in order, and index independent sub-cubes.

Declined: block-by-block equality with the cubes of the slices (values).
Decided: the AXIS-ORDER ALGEBRA (engine P with tuple terms): the shapes of the arrays
actually returned, the order in which slice coordinates are produced and concatenated,
the pairing of data slices with coordinates, the category extents of sub-cubes, and that
block selection uses integer indices on leading axes only (views).
"""
import os
import sys

sys.path.insert(0, os.path.dirname(os.path.dirname(os.path.abspath(__file__))))
from sa import core, hints, tasks, terms as tm
from sa.terms import T
from sa.pyfront import Program
from sa.symex import Interp

RULES = {
    "R-C13-h": "product / calculate derive the sub-cubes from the dimensions at every call and keep nothing on the cube between calls (frame analysis shared with C17)",
    "R-C13-g": "the grand total in the corner of every sub-cube's regions is the all-rows instance of the per-cell value: it depends on the rows only, not on the extra axes of the dimension it is read from",
    "R-C13-f": "each sub-cube writes exactly its own block: inside a task every region is addressed through region[tuple(its own coordinates)], and the unsliced region is used only when there is a single task (imported from the C16 analysis)",
    "R-C13-a": "result shape = <extra axes of each dimension, in dims order then axis order> ++ <one category extent per dimension> ++ <fact columns>, for the attributes that flow into returned arrays",
    "R-C13-b": "slice coordinates are produced in axis order (slices1d peels the last axis and PREPENDS its coordinate; xcube.product enumerates range(extent) per extra axis in order)",
    "R-C13-c": "inside a task the data slice and its coordinates come from the same product element, position by position",
    "R-C13-d": "every sub-cube is built with the parent's category extents",
    "R-C13-e": "a task's block is selected with integer indices on leading axes only (a view)",
}


def event_terms(ev):
    for v in ev.d.values():
        if isinstance(v, T):
            yield v
        elif isinstance(v, tuple):
            for x in v:
                if isinstance(x, T):
                    yield x
                elif isinstance(x, tuple):
                    for y in x:
                        if isinstance(y, T):
                            yield y


def block_indices(tev):
    out = []
    for e in tev:
        for v in event_terms(e):
            for x in tm.walk(v):
                if x.op == "sub" and x.args[1].op == "call" and tm.callee_name(x.args[1]) == "builtins.tuple" and x not in out:
                    out.append(x)
    return out


def comp_shape(t, I):
    """Describe tuple(<generator>) terms: ('nested', outer iterable, inner suffix) etc."""
    if t.op == "call" and tm.callee_name(t) == "builtins.tuple" and t.args[1] and t.args[1][0].op == "comp":
        return t.args[1][0]
    return None


def is_scaffold_shape(t, I, dims_terms):
    """tuple(e for d in DIMS for e in d.shape[1:])  ->  (True | False | None, why); None = form not recognised"""
    # tuple(itertools.chain.from_iterable(d.shape[1:] for d in DIMS))
    if t.op == "call" and tm.callee_name(t) == "builtins.tuple" and t.args[1] and t.args[1][0].op == "call" \
            and tm.callee_name(t.args[1][0]) in ("itertools.chain.from_iterable",) and t.args[1][0].args[1] and t.args[1][0].args[1][0].op == "comp":
        c = t.args[1][0].args[1][0]
        if len(c.args[2]) == 1:
            lid = c.args[2][0]
            it = I.loopinfo[lid]["iter"]
            want = T("sub", T("attr", T("iter", it, lid), "shape"), T("slice", tm.const(1), tm.NONE, tm.NONE))
            if it in dims_terms and c.args[1] == want and not I.loopinfo[lid].get("conds"):
                return True, "dims order, then axis order (chain)"
        return None, "chain form not recognised"
    c = comp_shape(t, I)
    if c is None or len(c.args[2]) != 2:
        return None, "not the recognised two-level generator"
    outer, inner = c.args[2]
    it_o, it_i = I.loopinfo[outer]["iter"], I.loopinfo[inner]["iter"]
    if it_o not in dims_terms:
        if it_o.op == "call" and tm.callee_name(it_o) in ("builtins.reversed", "builtins.sorted") and it_o.args[1] and it_o.args[1][0] in dims_terms:
            return False, "outer loop iterates %s: extra axes are not in dimension order" % tm.show(it_o)[:40]
        return None, "outer loop iterates %s" % tm.show(it_o)[:40]
    want_inner = T("sub", T("attr", T("iter", it_o, outer), "shape"), T("slice", tm.const(1), tm.NONE, tm.NONE))
    if it_i != want_inner:
        if tm.contains(it_i, lambda x: x == want_inner):
            return False, "inner loop iterates %s: a dimension's extra axes are not in axis order" % tm.show(it_i)[:50]
        return None, "inner loop iterates %s" % tm.show(it_i)[:50]
    if c.args[1] != T("iter", it_i, inner):
        return None, "element is not the extent itself"
    if I.loopinfo[outer].get("conds") or I.loopinfo[inner].get("conds"):
        return None, "filtered"
    return True, "dims order, then axis order"


def tri(rep, ok, rule, where, cons, okd, badd, witness=None):
    if ok is None:
        rep.undecided(rule, where, cons, badd)
    else:
        rep.check(ok, rule, where, cons, okd, badd, witness)


def per_dim_tuple(t, I, over):
    """tuple(f(x) for x in OVER) -> element term, else None"""
    c = comp_shape(t, I)
    if c is None or len(c.args[2]) != 1:
        return None
    lid = c.args[2][0]
    if I.loopinfo[lid]["iter"] not in over or I.loopinfo[lid].get("conds"):
        return None
    return c.args[1], lid


def cube_rules(prog, rep):
    # ---------------- ccube
    fi = prog.func("ccubes", "ccube.__init__")
    I = Interp(prog, hints.param_types_for("ccubes"), hints.FIELD_TYPES)
    I.run(fi)
    attrs = {}
    for ev in I.events:
        if ev.kind == "store_attr" and ev["base"] == tm.param("self") and not ev.stack:
            attrs[ev["attr"]] = ev["value"]
    dims = tm.param("dims")
    where = fi.fq
    ss = attrs.get("scaffold_shape")
    ok, why = is_scaffold_shape(ss, I, [dims]) if ss is not None else (None, "attribute missing")
    tri(rep, ok, "R-C13-a", where, "scaffold_shape = extra axes of each dimension, dims order then axis order", why, "scaffold_shape is not <d.shape[1:] for d in dims>: %s" % why,
        witness={"inputs": "two dimensions with different numbers of columns"})
    ish = attrs.get("interacting_shape")
    # working_shape = scaffold_shape + tuple(e + 1 for e in interacting_shape)
    ws = attrs.get("working_shape")
    ok = False
    why = "attribute missing"
    if ws is not None and ws.op == "binop" and ws.args[0] == "+":
        left, right = ws.args[1], ws.args[2]
        r = per_dim_tuple(right, I, [ish] + tm.alts(ish))
        ok = left == ss and r is not None and r[0] == T("binop", "+", T("iter", I.loopinfo[r[1]]["iter"], r[1]), tm.const(1))
        why = "extra axes first, then one (extent + 1) per dimension" if ok else ("the extra axes are not the leading part" if left != ss else "category part is not extent+1 per dimension")
    rep.check(ok, "R-C13-a", where, "working_shape = scaffold_shape ++ (extent + 1 per dimension)", why, "working_shape: %s" % why,
              witness={"inputs": "a 2-D dimension (3 columns) crossed with a 1-D one: the column axis must be axis 0 of the result"})
    # marginless / corner = scaffold ++ per-dim item
    sc = attrs.get("scaffold")
    rsc = per_dim_tuple(sc, I, [ss]) if sc is not None else None
    ok_sc = rsc is not None and rsc[0].op == "call" and tm.callee_name(rsc[0]) == "builtins.slice" and rsc[0].args[1] == (tm.NONE,)
    if not ok_sc and sc is not None:
        # (slice(None),) * len(<extra-axes shape>): the same tuple written as a repetition
        for a in tm.alts(sc):
            if a.op == "binop" and a.args[0] == "*":
                for tup, cnt in ((a.args[1], a.args[2]), (a.args[2], a.args[1])):
                    if tup.op == "tuple" and len(tup.args) == 1 and tup.args[0].op == "call" and tm.callee_name(tup.args[0]) == "builtins.slice" and tup.args[0].args[1] == (tm.NONE,) \
                            and cnt.op == "call" and tm.callee_name(cnt) == "builtins.len" and cnt.args[1] and (cnt.args[1][0] == ss or ss in tm.alts(cnt.args[1][0]) or cnt.args[1][0] in tm.alts(ss)):
                        ok_sc = True
    if ok_sc:
        rep.proved("R-C13-a", where, "scaffold = slice(None) per extra axis", "")
    elif sc is not None and any(tm.contains(a, lambda x: x.op == "call" and tm.callee_name(x) == "builtins.slice" and x.args[1] == (tm.NONE,)) for a in tm.alts(sc)):
        rep.undecided("R-C13-a", where, "scaffold = slice(None) per extra axis", "scaffold is built from slice(None), but not in a recognised per-axis form: %s" % tm.show(sc)[:70])
    else:
        rep.check(ok_sc, "R-C13-a", where, "scaffold = slice(None) per extra axis", "", "scaffold is %s" % (sc and tm.show(sc)[:60]))
    for name, want in (("marginless", "slice(0,-1)"), ("corner", "-1")):
        v = attrs.get(name)
        ok = False
        why = "attribute missing"
        if v is not None and v.op == "binop" and v.args[0] == "+":
            left, right = v.args[1], v.args[2]
            r = per_dim_tuple(right, I, [dims])
            if name == "marginless":
                # slice(0, -1) / slice(None, -1) / slice(-1): everything but the last (margin) position
                sl = r[0].args[1] if (r is not None and r[0].op == "call" and tm.callee_name(r[0]) == "builtins.slice") else None
                elem_ok = sl is not None and ((len(sl) in (2, 3) and (tm.is_const(sl[0], 0) or sl[0] == tm.NONE) and tm.is_const(sl[1], -1) and (len(sl) == 2 or sl[2] == tm.NONE or tm.is_const(sl[2], 1)))
                                              or (len(sl) == 1 and tm.is_const(sl[0], -1)))
            else:
                elem_ok = r is not None and tm.is_const(r[0], -1)
            ok = left == sc and elem_ok
            why = "extra axes kept whole, then %s per dimension" % want if ok else ("the extra-axis part is not leading" if left != sc else "per-dimension part is not %s" % want)
        rep.check(ok, "R-C13-a", where, "%s = scaffold ++ (%s per dimension)" % (name, want), why, "%s: %s" % (name, why),
                  witness={"inputs": "any cube with an extra axis: the wrong axes are trimmed / the corner is misplaced"})
    # ---------------- xcube
    fx = prog.func("xcubes", "xcube.__init__")
    Ix = Interp(prog, hints.param_types_for("xcubes"), hints.FIELD_TYPES, no_inline={"xcube._set_strides"})
    Ix.run(fx)
    ax = {}
    for ev in Ix.events:
        if ev.kind == "store_attr" and ev["base"] == tm.param("self") and not ev.stack:
            ax[ev["attr"]] = ev["value"]
    sdims = ax.get("dims")
    ssx = ax.get("scaffold_shape")
    ok, why = is_scaffold_shape(ssx, Ix, [sdims]) if ssx is not None and sdims is not None else (None, "attribute missing")
    tri(rep, ok, "R-C13-a", fx.fq, "scaffold_shape = extra axes of each dimension, dims order then axis order", why, "xcube.scaffold_shape: %s" % why)
    shx = ax.get("shape")
    ok = shx is not None and shx.op == "binop" and shx.args[0] == "+" and shx.args[1] == ssx and shx.args[2] == ax.get("interacting_shape")
    rep.check(ok, "R-C13-a", fx.fq, "xcube.shape = scaffold_shape ++ interacting_shape (this attribute shapes the returned arrays)", "", "xcube.shape is %s" % (shx and tm.show(shx)[:80]),
              witness={"inputs": "a 2-D array dimension: the column axis must come first"})
    rep.note("ccube.shape is not on the path of any returned array (regions use working_shape, results are trimmed by marginless): not checked on purpose")


def region_rules(prog, rep):
    """Every aggregator allocates its regions as <cube shape attribute> ++ <fact columns>; ffunc reduces trim with marginless."""
    n = 0
    for mod, attr in (("ffuncs", "working_shape"), ("xfuncs", "shape")):
        m = prog.module(mod)
        for ci in m.classes.values():
            f = ci.methods.get("get_initial_regions")
            if f is None or ci.name in ("ffunc", "xfunc"):
                continue
            I = Interp(prog, hints.param_types_for(mod), hints.FIELD_TYPES, max_depth=3, no_inline={"as_separate_validity"})  # private allocation helpers are inlined
            I.run(f)
            cube = tm.param("cube")
            base = T("attr", cube, attr)
            allocs = [ev for ev in I.events if ev.kind == "call" and ev["name"] in ("numpy.zeros", "numpy.full", "numpy.empty", "numpy.ones") and ev["args"]]
            if not allocs or any(tm.contains(ev["args"][0], lambda x: x.op == "unknown") for ev in allocs):
                n += 1
                rep.undecided("R-C13-a", f.fq, "regions are allocated with shape cube.%s ++ fact columns" % attr,
                              "no region allocation read in this method (or a shape the walker could not follow): allocated through a helper that is not inlined?")
                continue
            bad = []
            for ev in allocs:
                sh = ev["args"][0]
                for a in tm.alts(sh):
                    if a == base:
                        continue
                    if a.op == "binop" and a.args[0] == "+" and a.args[1] == base:
                        continue
                    if a.op == "tuple" and a.args == (tm.const(1),):
                        continue  # dimensionless cube
                    bad.append((ev, a))
            n += 1
            rep.check(bool(allocs) and not bad, "R-C13-a", f.fq, "regions are allocated with shape cube.%s ++ fact columns" % attr,
                      "%d allocations" % len(allocs), "a region has shape %s" % (bad and tm.show(bad[0][1])[:60]),
                      witness={"inputs": "fact array with two columns on a cube with an extra axis"})
        if mod == "ffuncs":
            for ci in m.classes.values():
                f = ci.methods.get("reduce")
                if f is None or ci.name == "ffunc":
                    continue
                # helpers of the module (a shared `difference, then trim` function, reduce tails on the base class) are inlined
                I = Interp(prog, hints.param_types_for(mod), hints.FIELD_TYPES, max_depth=4,
                           no_inline={"ffunc.adjust_zeros", "ccube._compute_common_cells_from_marginal_diffs", "as_separate_validity"})
                fr = I.run(f)
                cube = tm.param("cube")
                # every returned array derives from R[cube.marginless]
                okr, raw = True, False
                for v, g in fr.returns:
                    for comp in (v.args if v.op == "tuple" else (v,)):
                        if not tm.contains(comp, lambda x: x.op == "sub" and x.args[1] == T("attr", cube, "marginless")):
                            okr = False
                            # a region handed back as it is (or through arithmetic only) is certainly untrimmed
                            if tm.contains(comp, lambda x: x.op == "unpack" and x.args[0] == tm.param("regions")) and not tm.contains(comp, lambda x: x.op == "call" and not (tm.callee_name(x) or "").startswith(("numpy.", "."))):
                                raw = True
                n += 1
                cons = "returned arrays are trimmed with cube.marginless (extra axes kept whole, margins cut per dimension)"
                if okr:
                    rep.proved("R-C13-a", f.fq, cons, "")
                elif raw:
                    rep.violated("R-C13-a", f.fq, cons, "a region is returned without the [cube.marginless] trim: the margin cells of every dimension stay in the result", witness={"inputs": "any cube: the result has one extra cell per dimension"})
                else:
                    rep.undecided("R-C13-a", f.fq, cons, "a returned value does not visibly derive from <region>[cube.marginless]")
    rep.floor("R-C13-a", 20, n + 7)


def slices_rules(prog, rep):
    fi = prog.func("iindexes", "iindex.slices1d")
    I = Interp(prog, hints.param_types_for("iindexes"), hints.FIELD_TYPES)
    I.run(fi)
    self_t = tm.param("self")
    where = fi.fq
    # every slice keeps the PARENT's common value: the cube differences each block at dim.common of the parent index, so a
    # slice re-normalised to its own most frequent category (shift_common) has its cells exchanged in that block
    Ini = Interp(prog, hints.param_types_for("iindexes"), hints.FIELD_TYPES, inline=False)
    Ini.run(fi)
    ctor0 = [e for e in Ini.events if e.kind == "call" and e["name"] in ("iindexes:iindex",) or (e.kind == "call" and e["method"] == "__class__")]
    commons = [e["args"][1] for e in Ini.events if e.kind == "call" and e["name"] == "iindexes:iindex" and len(e["args"]) >= 2]
    movers = [e for e in Ini.events if e.kind == "call" and e["method"] in ("shift_common",) and e["recv"] is not None and e["recv"] != self_t]
    cons_c = "every 1-D slice is encoded with the parent's common value"
    if movers:
        rep.violated("R-C13-b", "%s@%d" % (where, movers[0].line), cons_c,
                     "a slice is re-normalised with %s() before it is handed out: its common value may differ from the parent's, while the cube reconstructs the common cell of every block at the PARENT's dim.common"
                     % movers[0]["method"], witness={"inputs": "a 2-axis index with one column whose most frequent category is not the index-wide common value: in that block the two categories' cells are exchanged (one becomes NaN)"})
    elif commons and all(c == T("attr", self_t, "common") for c in commons):
        rep.proved("R-C13-b", where, cons_c, "sub-indexes are built with self.common and not re-normalised")
    elif commons:
        rep.undecided("R-C13-b", where, cons_c, "a sub-index is built with common value %s: not recognisably self.common" % tm.show([c for c in commons if c != T("attr", self_t, "common")][0])[:50])
    else:
        rep.undecided("R-C13-b", where, cons_c, "no sub-index construction found in slices1d")
    # the sub-rules below read the RECURSIVE generator (bucket by last coordinate, recurse on shape[:-1] with the coordinate
    # prepended, yield (coords, self) at the bottom); any other algorithm (an explicit stack, itertools) is not decided here
    if not [e for e in I.events if e.kind == "call" and e["method"] == "slices1d" and not e.stack]:
        rep.undecided("R-C13-b", where, "slices1d peels the last axis and labels every 1-D slice with its coordinates in axis order", "slices1d is not the recursive generator this rule reads (no recursive call)")
        _product_rule(prog, rep)
        return
    # (1) buckets by the LAST coordinate, one per position of the last axis
    st = [e for e in I.events if e.kind == "store_sub" and not e.stack]
    ok1 = False
    for e in st:
        b, k, v = e["base"], e["index"], e["value"]
        if b.op == "sub" and k.op == "sub" and v.op == "dval":
            last = b.args[1]
            ok1 = (last.op == "sub" and last.args[0].op == "dkey" and tm.is_const(last.args[1], -1)
                   and k.args[0] == last.args[0] and k.args[1] == T("slice", tm.NONE, tm.const(-1), tm.NONE))
    rep.check(ok1, "R-C13-b", where, "entries are bucketed by their LAST coordinate and keyed by the remaining ones", "buckets[coords[-1]][coords[:-1]] = rowids",
              "slices1d does not peel the last axis", witness={"inputs": "3-D index (rows, 2, 3)"})
    rng = [e for e in I.events if e.kind == "call" and e["name"] == "builtins.range" and not e.stack]
    ok2 = any(e["args"] and e["args"][0] == T("sub", T("attr", self_t, "shape"), tm.const(-1)) for e in rng)
    rep.check(ok2, "R-C13-b", where, "one bucket per position of the last axis", "range(self.shape[-1])", "bucket count is not the extent of the last axis")
    # (2) recursion on shape[:-1] with (coord,) + base_coords
    ctor = [e for e in I.events if e.kind == "call" and e["name"] == "iindexes:iindex" and not e.stack]
    ok3 = any(len(e["args"]) == 3 and e["args"][2] == T("sub", T("attr", self_t, "shape"), T("slice", tm.NONE, tm.const(-1), tm.NONE)) for e in ctor)
    rep.check(ok3, "R-C13-b", where, "the recursion works on the index without its last axis", "shape[:-1]", "sub-index shape is not shape[:-1]")
    rec = [e for e in I.events if e.kind == "call" and e["method"] == "slices1d" and not e.stack]
    ok4 = False
    detail = "no recursive call"
    for e in rec:
        a = e["args"][0] if e["args"] else None
        if a is not None and a.op == "binop" and a.args[0] == "+":
            l, r = a.args[1], a.args[2]
            if l.op == "tuple" and len(l.args) == 1 and l.args[0].op == "enumidx" and r == tm.param("base_coords"):
                ok4 = True
            elif r.op == "tuple" and len(r.args) == 1 and r.args[0].op == "enumidx" and l == tm.param("base_coords"):
                detail = "the peeled coordinate is APPENDED: coordinates come out in reverse axis order"
            else:
                detail = "coordinates are extended as %s" % tm.show(a)[:60]
    rep.check(ok4, "R-C13-b", where, "the peeled (last-axis) coordinate is PREPENDED, so yielded coordinates are in axis order", "(coord,) + base_coords", detail,
              witness={"inputs": "index of shape (rows, 2, 3): slice (0, 2) would be labelled (2, 0)"})
    ys = [e for e in I.events if e.kind == "yield" and not e.stack and not e.loops]
    ok5 = any(e["value"].op == "tuple" and len(e["value"].args) == 2 and e["value"].args[0] == tm.param("base_coords") and e["value"].args[1] == self_t for e in ys)
    rep.check(ok5, "R-C13-b", where, "the base case yields (accumulated coordinates, the 1-D index)", "", "base case changed")
    _product_rule(prog, rep)


def _product_rule(prog, rep):
    # xcube.product
    fp = prog.func("xcubes", "xcube.product")
    Ip = Interp(prog, hints.param_types_for("xcubes"), hints.FIELD_TYPES)
    Ip.run(fp)
    apps = [e for e in Ip.events if e.kind == "call" and e["method"] == "append" and not e.stack]
    okp = False
    for e in apps:
        a = e["args"][0]
        if a.op == "call" and tm.callee_name(a) == "itertools.product" and a.args[1] and a.args[1][0].op == "starred":
            c = a.args[1][0].args[0]
            if c.op == "comp" and len(c.args[2]) == 1:
                lid = c.args[2][0]
                it = Ip.loopinfo[lid]["iter"]
                el = c.args[1]
                if el.op == "call" and tm.callee_name(el) == "builtins.range" and el.args[1] == (T("iter", it, lid),) \
                        and it.op == "sub" and it.args[0].op == "attr" and it.args[0].args[1] == "shape" and it.args[1] == T("slice", tm.const(1), tm.NONE, tm.NONE):
                    okp = True
    rep.check(okp, "R-C13-b", fp.fq, "per array dimension the coordinates are product(range(e) for e in d.shape[1:]) (axis order)", "", "xcube.product does not enumerate the extra axes in order")
    loops = [li for li in Ip.loopinfo.values() if li.get("kind") == "for" and li.get("fi") is fp]
    okd = any(li["iter"] == T("attr", tm.param("self"), "dims") for li in loops)
    rets = [e for e in Ip.events if e.kind == "return" and not e.stack]
    okr = any(e["value"].op == "call" and tm.callee_name(e["value"]) == "itertools.product" for e in rets)
    rep.check(okd and okr, "R-C13-b", fp.fq, "the outer product runs over self.dims in order", "", "dimension order of the product changed")


def task_rules(prog, rep):
    # ---------------- ccube task
    info = tasks.analyse_cube(prog, "ccubes", "ccube", max_depth=3)
    I = info.I
    fi = info.fi
    for cb in info.serial_calls[:1]:
        taskarg = cb["args"][0]
        tev = tasks.task_events(info, cb)
        ctor = [e for e in tev if e.kind == "call" and e["name"] == "ccubes:ccube"]
        tup = [e for e in tev if e.kind == "call" and e["name"] == "builtins.tuple" and e.fi in info.task_fis]
        okc = okd = False
        data_src = coord_src = None
        for e in ctor:
            a = e["args"][0] if e["args"] else None
            if a is not None and a.op == "comp" and len(a.args[2]) == 1:
                lid = a.args[2][0]
                if I.loopinfo[lid]["iter"] == taskarg and a.args[1] == T("sub", T("iter", taskarg, lid), tm.const("data")):
                    okc = True
                    data_src = taskarg
            ish = dict(e["kwargs"]).get("interacting_shape")
            if ish is None and len(e["args"]) > 1:
                ish = e["args"][1]
            okd = ish is not None and (ish == T("attr", tm.param("self"), "interacting_shape") or ish in tm.alts(T("attr", tm.param("self"), "interacting_shape")))
            rep.check(okd, "R-C13-d", "%s@%d" % (fi.fq, e.line), "sub-cube is built with the parent's interacting_shape", "", "sub-cube extents are %s" % (ish and tm.show(ish)[:50]),
                      witness={"inputs": "a slice in which the highest category does not occur: its block would be smaller"})
        # subcube_coords = [dim['coords'] for dim in subcube_dims] and flattened from it (C16 R-C16-b checks the flattening)
        okp = False
        for e in tup:
            a = e["args"][0]
            if a.op == "comp" and len(a.args[2]) == 2:
                outer = a.args[2][0]
                src = I.loopinfo[outer]["iter"]
                if src.op == "comp" and len(src.args[2]) == 1:
                    l2 = src.args[2][0]
                    if I.loopinfo[l2]["iter"] == taskarg and src.args[1] == T("sub", T("iter", taskarg, l2), tm.const("coords")):
                        okp = True
        if not okp:
            # the same recogniser C16 uses for the block coordinates (comprehension, itertools.chain forms), with the extra
            # demand that the projection is ["coords"]
            for e in tup:
                a = e["args"][0] if e["args"] else None
                if a is None:
                    continue
                import c16

                ok, _why = c16._is_concat_of_taskarg(a, taskarg, I)
                if ok and tm.contains(a, lambda x: x.op == "sub" and tm.is_const(x.args[1], "coords") and x.args[0].op == "iter" and x.args[0].args[0] == taskarg):
                    okp = True
        cons_c = "ccube task: data slices and coordinates are the 'data' and 'coords' of the same product element, in the same order"
        if okc and okp:
            rep.proved("R-C13-c", fi.fq, cons_c, "")
        else:
            # block coordinates that are computed from the task argument alone, in a form not read here (itertools.chain, a
            # helper): not decided; coordinates that come from anywhere else are a violation
            from_task = [e for e in tup if e["args"] and tasks.leaves(e["args"][0], I, stop=(taskarg,)) == {taskarg} and tm.contains(e["args"][0], lambda x: tm.is_const(x, "coords") or x == taskarg)]
            if okc and from_task:
                rep.undecided("R-C13-c", fi.fq, cons_c, "the block coordinates derive from the task argument only, but not through the comprehension this rule reads: %s" % tm.show(from_task[0]["args"][0])[:70])
            else:
                rep.violated("R-C13-c", fi.fq, cons_c, "data and coordinates of a task are taken from different places/orders", witness={"inputs": "two multi-column dimensions with different column counts"})
        # R-C13-e: the block index is tuple(<ints only>)
        idx = block_indices(tev)
        oke = bool(idx) and all(not tm.contains(x.args[1], lambda y: y.op == "slice" or (y.op == "call" and tm.callee_name(y) == "builtins.slice")) for x in idx)
        rep.check(oke, "R-C13-e", fi.fq, "ccube task: region[tuple(flattened_slice)] indexes leading axes with integers only", "basic integer indexing yields a view of the shared region",
                  "the block index contains slices / is not a plain tuple of coordinates")
    # product elements pair c with s from the same slices1d item
    fp = prog.func("ccubes", "ccube.product")
    Ip = Interp(prog, hints.param_types_for("ccubes"), hints.FIELD_TYPES, inline=False)
    fr = Ip.run(fp)
    okpp = False
    for v, g in fr.returns:
        if v.op == "call" and tm.callee_name(v) == "itertools.product" and v.args[1] and v.args[1][0].op == "starred":
            c = v.args[1][0].args[0]
            if c.op == "comp" and len(c.args[2]) == 1 and Ip.loopinfo[c.args[2][0]]["iter"] == T("attr", tm.param("self"), "dims"):
                inner = c.args[1]
                if inner.op == "comp" and inner.args[1].op == "alloc":
                    items = dict((k.args[1] if k.op == "const" else None, val) for k, val in Ip.heap[inner.args[1]].get("literal", ()))
                    cs, ds = items.get("coords"), items.get("data")
                    if cs is not None and ds is not None and cs.op == "unpack" and ds.op == "unpack" and cs.args[0] == ds.args[0] and (cs.args[1], ds.args[1]) == (0, 1):
                        okpp = True
    rep.check(okpp, "R-C13-c", fp.fq, "ccube.product pairs each coordinate tuple with the slice it labels, per dimension in dims order", "{'coords': c, 'data': s} for c, s in dim.slices1d()",
              "coords and data of a product element are not the two halves of one slices1d item")
    # every extra-axis position yields a sub-cube: the comprehensions that build the product do not filter
    filt = [(lid, li["conds"]) for lid, li in Ip.loopinfo.items() if li.get("conds")]
    if filt:
        rep.violated("R-C13-b", fp.fq, "ccube.product enumerates EVERY extra-axis position",
                     "a comprehension of the product filters its items (%s): a position whose slice is dropped gets no sub-cube at all, so the other dimensions' contributions at that position are never computed and the block keeps only the pre-seeded grand total"
                     % "; ".join(tm.show(c)[:40] for lid, cs in filt for c in cs)[:120],
                     witness={"inputs": "a cube over a multi-column dimension in which one column holds only the common value, crossed with another dimension"})
    else:
        rep.proved("R-C13-b", fp.fq, "ccube.product enumerates EVERY extra-axis position", "no filter in the comprehensions that build the product")
    # ---------------- xcube task
    infox = tasks.analyse_cube(prog, "xcubes", "xcube", max_depth=2)
    Ix = infox.I
    fx = infox.fi
    for cb in infox.serial_calls[:1]:
        taskarg = cb["args"][0]
        tev = tasks.task_events(infox, cb)
        # slices1d = [sd if c is None else sd[(slice(None),) + c] for c, sd in zip(nested_coords, strided_dims)]
        okz = False
        oks = False
        for e in tev:
            if e.kind == "call" and e["name"] == "builtins.zip" and e.fi in infox.task_fis and len(e["args"]) == 2 and e["args"][0] == taskarg:
                sd = e["args"][1]
                okz = True
        for e in tev:
            for v in event_terms(e):
                if True:
                    for x in tm.walk(v):
                        if x.op == "sub" and x.args[1].op == "binop" and x.args[1].args[0] == "+" and x.args[1].args[1].op == "tuple" \
                                and len(x.args[1].args[1].args) == 1 and x.args[1].args[1].args[0].op == "call" and tm.callee_name(x.args[1].args[1].args[0]) == "builtins.slice":
                            oks = True
        rep.check(okz and oks, "R-C13-c", fx.fq, "xcube task: coordinates are zipped with the strided dimensions position by position and applied after the row axis",
                  "dim[(slice(None),) + coords]", "coordinates are not paired positionally with their dimension / not applied to the extra axes")
        idx = block_indices(tev)
        oke = bool(idx) and all(not tm.contains(x.args[1], lambda y: y.op == "slice" or (y.op == "call" and tm.callee_name(y) == "builtins.slice")) for x in idx)
        rep.check(oke, "R-C13-e", fx.fq, "xcube task: region[tuple(flattened_slice)] indexes leading axes with integers only", "", "the block index is not a plain tuple of coordinates")
    # strided_dims in dims order
    fs = prog.func("xcubes", "xcube.strided_dims")
    Is = Interp(prog, hints.param_types_for("xcubes"), hints.FIELD_TYPES, inline=False)
    Is.run(fs)
    okz = any(e.kind == "call" and e["name"] == "builtins.zip" and len(e["args"]) == 2 and e["args"][1] == T("attr", tm.param("self"), "dims") and e["args"][0] == T("attr", tm.param("self"), "multipliers") for e in Is.events)
    rep.check(okz, "R-C13-c", fs.fq, "strided dimensions are produced in dims order, each with its own multiplier", "zip(self.multipliers, self.dims)", "strides and dimensions are paired differently")


def main(tier):
    rep = core.Report("C13", level="other", rules=RULES, tier=tier,
                      declined="the block at any extra-axis position EQUALS the cube of the corresponding 1-D slices (values); decided is the axis-order algebra that makes it so")
    rep.trusted_base = ["CPython ast", "symbolic walker with tuple terms", "NumPy: integer indexing on leading axes and reshape of such a block yield views"]
    prog = Program()
    cube_rules(prog, rep)
    region_rules(prog, rep)
    slices_rules(prog, rep)
    task_rules(prog, rep)
    import c16
    sub = core.Report("C16", level="other", rules=c16.RULES, tier=tier)
    for module, cls in (("ccubes", "ccube"), ("xcubes", "xcube")):
        c16.analyse_one(prog, module, cls, sub)
    k = 0
    for o in sub.obls:
        if o.rule in ("R-C16-a", "R-C16-b", "R-C16-c"):
            k += 1
            rep.add("R-C13-f", o.where, "[%s] %s" % (o.rule, o.construct), o.status, o.detail, True, o.witness)
    rep.floor("R-C13-f", 4, k)
    # R-C13-g: the grand total seeded in the corner of EVERY sub-cube is the all-rows instance of the per-cell value, i.e. it
    # counts rows, never rows x extra extents (every block is differenced from its own corner): the corner/cell rule of the
    # aggregate algebra, where `X.size` / prod(X.shape) normalise to ROWSxCOLUMNS and X.shape[0] to the row count
    from sa import aggtables as AT
    CG = AT.Collector()
    ng = AT.rule_corner_cell(prog, CG, "R-C13-g")
    for rule, status, where, cons, detail, wit in CG.items:
        rep.add(rule, where, cons, status, detail, True, wit if status != "VIOLATED" else {"inputs": "ccube([<index with extra axes>, ...]).count(): the all-common cell of every block is too large by rows x (extra extents - 1)"})
    rep.floor("R-C13-g", 30, ng)
    # R-C13-h: the list of sub-cubes is derived from the dimensions' CURRENT state at every evaluation: product / calculate
    # keep nothing on the cube between calls (a cached product pairs stale snapshots of a multi-axis index with the live
    # 1-D dimensions after an in-place append / update) - the frame analysis of C17 for these roots
    import c17
    st17 = {"events": 0, "mods": 0, "diagnostic": {}, "exceptions": {}, "regions": 0, "shortcuts": 0}
    k17 = 0
    for module, cls in (("ccubes", "ccube"), ("xcubes", "xcube")):
        ci = prog.cls(module, cls)
        for nm in ("product", "calculate"):
            f17 = ci.methods.get(nm)
            if f17 is not None:
                c17.analyse_root(prog, f17, "cube", rep, st17, RA="R-C13-h", RB="R-C13-h", extra=False)
                k17 += 1
    rep.floor("R-C13-h", 3, k17)
    return rep.finish()


if __name__ == "__main__":
    core.run_main("C13", main)
