#!/venv/bin/python
"""C20 - an interrupt raised at any cancellation point stops the cube cleanly.

Static decision (engines P + F) for ccube.calculate and xcube.calculate:
  R-C20-a  the callback is consulted exactly once per sub-cube task, first thing,
           outside any loop of the task, in both the serial and the pooled activation;
  R-C20-b  nothing between the API method and the callback can swallow the exception
           (no try whose handler completes, no suppressing context manager);
  R-C20-c  pooled dispatch is blocking + re-raising and the pool is closed by a `with`;
  R-C20-d  nothing of an aborted call survives: regions live in locals of calculate,
           aggregators and the cube are not written (except named diagnostics that are
           re-initialised), so the same objects start the next call like fresh ones.
"""
import os
import sys

sys.path.insert(0, os.path.dirname(os.path.dirname(os.path.abspath(__file__))))
from sa import core, own, tasks, hints, terms as tm
from sa.pyfront import Program
from sa.symex import Interp

RULES = {
    "R-C20-f": "only an exception raised by the callback stops the cube: its return value is not used (no raise / return of the task depends on it)",
    "R-C20-e": "the callback read inside a pooled task is the one the caller set: check_interrupt is a plain attribute, not a property over threading.local storage (worker threads have their own, empty, slot)",
    "R-C20-a": "check_interrupt is called exactly once per task, before any store or effectful call, outside loops of the task, guarded only by `is not None`",
    "R-C20-b": "no try/except or suppressing context manager between the public method and the callback can complete without re-raising",
    "R-C20-c": "pooled dispatch is blocking and re-raising; the pool is the subject of a with-statement (closed on the exceptional exit)",
    "R-C20-d": "no result region or partial state is stored on the cube or the aggregators; per-call diagnostics are re-initialised at the start of calculate",
}
NONSWALLOWING_CTX = {"contextlib.closing", "numpy.errstate", "multiprocessing.pool.ThreadPool", "multiprocessing.pool.Pool", "warnings.catch_warnings"}
SWALLOWING_CTX = {"contextlib.suppress"}
EFFECT_FREE = {"builtins.print", "builtins.len", "builtins.isinstance", "builtins.tuple", "builtins.list", "builtins.zip", "builtins.range", "builtins.enumerate"}


def is_check_call(ev):
    if ev.kind != "call":
        return False
    f = ev["f"]
    return any(a.op == "attr" and a.args[1] == "check_interrupt" for a in tm.alts(f))


def analyse_one(prog, module, clsname, rep):
    info = tasks.analyse_cube(prog, module, clsname)
    I = info.I
    where = info.fi.fq
    entries = list(info.callbacks) + list(info.serial_calls)
    if not entries:
        rep.undecided("R-C20-a", where, "task activations", "no task function dispatched from calculate (anchor vanished)")
        return
    kinds = {"pooled": info.callbacks, "serial": info.serial_calls}
    for kname, evs in kinds.items():
        if not evs:
            rep.undecided("R-C20-a", where, "%s activation" % kname, "no %s invocation of the task function found" % kname)
            continue
        for entry in evs:
            if entry["via"] == "map":
                rep.violated("R-C20-b", "%s@%d" % (where, entry.line), "%s task driven by the builtin map()" % kname,
                             "an exception derived from StopIteration raised by the callback inside the mapped function is taken by the consumer of the map object (list(), a for loop) as the end of the iteration: "
                             "the remaining sub-cubes are skipped and calculate returns a partial result instead of raising",
                             witness={"history": "check_interrupt = iter(range(n)).__next__ (a budget), or raising a subclass of StopIteration: calculate returns normally"})
            tev = tasks.task_events(info, entry)
            checks = [e for e in tev if is_check_call(e)]
            cons = "%s task: callback placement" % kname
            w = "%s@%d" % (where, entry.line)
            if not checks:
                # maybe hoisted out of the task
                hoisted = [e for e in info.top if is_check_call(e)]
                rep.violated("R-C20-a", w, cons, "the callback is not consulted inside the sub-cube task%s" % (" (it is called %d time(s) per calculate instead)" % len(hoisted) if hoisted else ""),
                             witness={"history": "cube with k sub-cubes: the callback raising at invocation i>1 is never reached"})
                continue
            if len(checks) > 1:
                rep.violated("R-C20-a", w, cons, "the callback is consulted %d times per task (lines %s)" % (len(checks), [c.line for c in checks]))
                continue
            c = checks[0]
            extra_loops = [l for l in c.loops if l not in entry.loops]
            extra_guards = [g for g in c.guards if g not in entry.guards]
            only_none_guard = all(_is_not_none_guard(g) for g in extra_guards)
            truthy = [g for g in extra_guards if g[1] is True and any(a.op == "attr" and a.args[1] == "check_interrupt" for a in tm.alts(g[0]))]
            if truthy and all(_is_not_none_guard(g) or g in truthy for g in extra_guards) and not extra_loops:
                rep.violated("R-C20-a", "%s@%d" % (c.fi.fq, c.line), cons, "the callback is consulted only when it is TRUTHY (`if self.check_interrupt:`): a callable object whose bool() is False "
                             "(one that defines __bool__ / __len__, e.g. a cancellation token that is falsy until it fires, an empty hook list with __call__) is never called, so the exception it would raise never happens",
                             witness={"history": "check_interrupt = an object with __call__ raising KeyboardInterrupt and __bool__ returning False: calculate returns normally"})
                continue
            in_task_fn = c.fi in info.task_fis
            if not in_task_fn and c.stack:
                # a private helper method of the cube (`self._poll_interrupt()`) called from the task function itself, once and
                # unconditionally w.r.t. the task: the consultation still happens inside the task
                last = (getattr(c.fi, "qualname", "") or "").split(".")[-1]
                caller = c.stack[-1][0]
                if last.startswith("_") and not last.startswith("__") and caller in info.task_fis:
                    in_task_fn = True
            ok = not extra_loops and only_none_guard and in_task_fn
            rep.check(ok, "R-C20-a", "%s@%d" % (c.fi.fq, c.line), cons, "one call, no loop, guarded only by `check_interrupt is not None`",
                      "callback is %s" % ("inside a loop of the task (consulted per row/entry, not per sub-cube)" if extra_loops else
                                          "conditional on %s" % [tm.show(g[0])[:60] for g in extra_guards if not _is_not_none_guard(g)] if not only_none_guard else
                                          "called from %s, not from the task function itself" % c.fi.qualname))
            # R-C20-f: "not raising makes it return": what the callback RETURNS decides nothing
            res = c.d.get("result")
            users = []
            if res is not None:
                for e in tev:
                    if e.seq <= c.seq:
                        continue
                    for g in e.guards:
                        if g not in c.guards and tm.contains(g[0], lambda x: x == res):
                            users.append(e)
                            break
            cons_f = "%s task: the callback's return value is ignored" % kname
            bad_users = [e for e in users if e.kind in ("raise", "return", "break", "continue")]
            if bad_users:
                rep.violated("R-C20-f", "%s@%d" % (bad_users[0].fi.fq, bad_users[0].line), cons_f,
                             "a %s depends on what the callback returned: a callback that never raises but returns a truthy value (a count, a timestamp, a Mock) aborts the evaluation with an exception nobody raised" % bad_users[0].kind,
                             witness={"history": "check_interrupt = itertools.count(1).__next__: calculate raises although the callback never did"})
            elif users:
                rep.undecided("R-C20-f", "%s@%d" % (users[0].fi.fq, users[0].line), cons_f, "later statements of the task are conditional on the callback's return value")
            else:
                rep.proved("R-C20-f", "%s@%d" % (c.fi.fq, c.line), cons_f, "called as a statement; no branch of the task reads its result")
            # first effect of the task
            before = [e for e in tev if e.seq < c.seq and _is_effect(e, I)]
            rep.check(not before, "R-C20-a", "%s@%d" % (c.fi.fq, c.line), "%s task: callback precedes every effect" % kname,
                      "no store / effectful call before it", "effects before the callback: %s" % [e.src()[:50] for e in before[:3]],
                      witness={"history": "the interrupted call leaves a partially filled region behind"})
            # transparency: try/with contexts enclosing the callback
            bad = []
            for tid in c.trys:
                ti = I.tryinfo[tid]
                if ti["kind"] == "try":
                    if any(not h["reraises"] for h in ti["handlers"]):
                        bad.append("try at line %d whose handler does not re-raise" % ti["node"].lineno)
                else:
                    for ctx in ti["ctx"]:
                        nm = tm.callee_name(ctx) if ctx.op == "call" else None
                        if nm in SWALLOWING_CTX:
                            bad.append("with %s" % nm)
                        elif nm not in NONSWALLOWING_CTX and not _is_pool_ctor(ctx):
                            bad.append("with %s (not in the non-swallowing table)" % (nm or tm.show(ctx)[:40]))
            rep.check(not bad, "R-C20-b", "%s@%d" % (c.fi.fq, c.line), "%s task: exception transparency around the callback" % kname,
                      "%d enclosing with/try contexts, none can swallow" % len(c.trys), "; ".join(bad),
                      witness={"history": "callback raises at invocation i; calculate returns normally"})
    # ---- R-C20-c
    disp = [ev for ev in info.pool_calls if ev["method"] in (tasks.POOL_BLOCKING | tasks.POOL_NONBLOCKING)]
    for ev in disp:
        m = ev["method"]
        w = "%s@%d" % (where, ev.line)
        kind = tasks.pool_kind(prog, module, clsname, ev["recv"])
        if kind == "executor" and m == "map":
            # Executor.map submits at once but hands back a lazy iterator: a worker's exception is raised only when the
            # result that carries it is fetched; leaving the with-block waits for the tasks and drops the exceptions
            consumed = False
            res = ev["result"]
            for e2 in info.top:
                if e2.kind == "call" and e2.seq > ev.seq and e2["name"] in ("builtins.list", "builtins.tuple", "builtins.sum") and res in e2["args"]:
                    consumed = True
            for lid, li in I.loopinfo.items():
                if li.get("iter") == res and li.get("kind") == "for" and li.get("fi") is info.fi:
                    consumed = True
            rep.check(consumed, "R-C20-c", w, "pooled dispatch re-raises", "Executor.map whose results are fetched (list / for): the first worker exception is re-raised there",
                      "concurrent.futures Executor.map returns a lazy iterator that nothing consumes: the tasks run (the with-block waits for them) but an exception raised inside a task - the interrupt - is never re-raised, and calculate returns normally",
                      witness={"history": "pooled mode: the callback raises in a worker, calculate returns a result whose interrupted sub-cubes were never filled"})
        elif kind is None and m in tasks.POOL_BLOCKING:
            rep.undecided("R-C20-c", w, "pooled dispatch re-raises", "the class of the pool object is not resolved: whether .%s blocks and re-raises is not known" % m)
        else:
            rep.check(m in tasks.POOL_BLOCKING, "R-C20-c", w, "pooled dispatch re-raises", "pool.%s blocks and re-raises the first worker exception" % m,
                      "pool.%s does not propagate a worker's exception to the caller of calculate" % m,
                      witness={"history": "pooled mode: callback raises in a worker, calculate returns"})
        pool = ev["recv"]
        in_with = any(w_["var"] == pool or w_["ctx"] == pool for w_ in info.withs)
        rep.check(in_with, "R-C20-c", w, "the pool is closed by a with-statement", "", "the pool object is not managed by a with: it stays open after an interrupt")
    # the whole chain calculate -> dispatch is not inside a swallowing try
    for ev in disp + list(info.serial_calls):
        bad = [I.tryinfo[t]["node"].lineno for t in ev.trys if I.tryinfo[t]["kind"] == "try" and any(not h["reraises"] for h in I.tryinfo[t]["handlers"])]
        rep.check(not bad, "R-C20-b", "%s@%d" % (where, ev.line), "dispatch is not inside a swallowing try", "", "try at line(s) %s" % bad)
    # ---- shortcut methods: calculate call not inside a swallowing try
    ci = prog.cls(module, clsname)
    n_short = 0
    for name, fi in ci.methods.items():
        if name.startswith("_") or name in ("calculate", "walk", "interactions", "product", "strided_dims"):
            continue
        I2 = Interp(prog, hints.param_types_for(module), hints.FIELD_TYPES, max_depth=1)
        I2.run(fi)
        for ev in I2.events:
            if ev.kind == "call" and not ev.stack and ev["method"] == "calculate":
                n_short += 1
                bad = [t for t in ev.trys if I2.tryinfo[t]["kind"] == "try" and any(not h["reraises"] for h in I2.tryinfo[t]["handlers"])]
                rep.check(not bad, "R-C20-b", fi.fq, "public method -> calculate is exception-transparent", "", "calculate is called inside a try that can swallow")
    rep.floors["R-C20-b"] = (14, rep.floors.get("R-C20-b", (0, 0))[1] + n_short)

    # ---- R-C20-d
    ctx = own.OwnCtx(I)
    leaks = []
    for m in own.mods(I, ctx):
        for r in m.roots:
            if r[0] == "PARAM":
                path = r[2]
                name = m.ev["attr"] if m.ev.kind == "store_attr" else ""
                if any(d in path for d in tasks.DIAG_ATTRS) or name in tasks.DIAG_ATTRS:
                    continue
                leaks.append(m)
    rep.check(not leaks, "R-C20-d", where, "calculate writes nothing on the cube or the aggregators besides named diagnostics",
              "regions and partial results live only in locals of the calculate activation",
              "state survives an aborted call: %s" % [(m.what, m.ev.line) for m in leaks[:3]],
              witness={"history": "interrupt, then calculate again on the same objects"})
    # per-call diagnostics re-initialised before the first task
    first = min(ev.seq for ev in entries)
    for ev in I.events:
        if ev.kind == "store_attr" and not ev.stack and ev["attr"] == "_tracing":
            rep.check(ev.seq < first and not ev.guards, "R-C20-d", "%s@%d" % (where, ev.line), "per-call tracing dict is rebound unconditionally before any task runs", "", "")


def _is_not_none_guard(g):
    c, pol = g
    if c.op == "cmp" and c.args[0] in ("is not", "is") and tm.NONE in c.args[1:]:
        other = c.args[1] if c.args[2] == tm.NONE else c.args[2]
        if other.op == "attr" and other.args[1] == "check_interrupt":
            return pol is (c.args[0] == "is not")
    if c.op == "call" and tm.callee_name(c) == "builtins.callable" and pol:
        return True
    return False


def _is_effect(e, I):
    if e.kind in ("store_sub", "store_attr", "del_sub", "aug_name", "yield"):
        return True
    if e.kind == "call":
        if e["resolved"]:
            return False  # its own events are in the list
        nm = e["name"] or ""
        if nm in EFFECT_FREE:
            return False
        if e["method"] in own.MUTATING_METHODS:
            return True
        return False
    return False


def _is_pool_ctor(ctx):
    if ctx.op != "call":
        return False
    nm = tm.callee_name(ctx) or ""
    return "Pool" in nm or (ctx.args[0].op == "attr" and ctx.args[0].args[1] in ("pool_class",))


def main(tier):
    rep = core.Report("C20", level="other", rules=RULES, tier=tier,
                      declined="'a following calculate equals a fresh evaluation' as a numerical statement; decided: placement of the callback, exception transparency, absence of surviving state")
    rep.trusted_base = ["CPython ast", "symbolic walker with full inlining", "pool.map re-raises the first worker exception; contextlib.closing / numpy.errstate do not suppress exceptions"]
    prog = Program()
    for module, cls in (("ccubes", "ccube"), ("xcubes", "xcube")):
        analyse_one(prog, module, cls, rep)
    n = rep.floors.pop("R-C20-b", (0, 0))
    rep.floor("R-C20-b", n[0], n[1])
    # R-C20-e: the callback the tasks read is the one the caller set - the tasks run on the pool's worker threads, so it
    # must not live in per-thread storage (sa/tls.py).  Zero thread-locals are expected; the rule still states what it saw.
    from sa import tls
    finds, inv = tls.scan(prog)
    k = 0
    for kind, where, cons, detail in finds:
        if kind == "property" and "check_interrupt" in cons:
            k += 1
            rep.violated("R-C20-e", where, cons, "the cancellation callback is looked up in thread-local storage: " + detail + " (None), so an interrupt requested by the caller is never consulted in pooled mode",
                         witness={"schedule": "cube.parallel = True; cube.check_interrupt = raise_now; cube.calculate(...) returns a full result, the callback is consulted 0 times"})
        elif kind == "property":
            k += 1
            rep.undecided("R-C20-e", where, cons, detail)
    for module, cls in (("ccubes", "ccube"), ("xcubes", "xcube")):
        c = prog.cls(module, cls)
        plain = "check_interrupt" in c.attrs and "check_interrupt" not in c.methods
        prop = c.methods.get("check_interrupt")
        cons = "%s.check_interrupt is a plain attribute shared by all threads" % cls
        if plain:
            rep.proved("R-C20-e", "%s:%s" % (module, cls), cons, "class attribute, no property / descriptor in front of it")
        elif prop is not None and not any(w.startswith("%s:%s.check_interrupt" % (module, cls)) for _, w, _, _ in finds):
            rep.undecided("R-C20-e", prop.fq, cons, "check_interrupt is computed by a method / property: what a worker thread sees is not decided")
        elif prop is None:
            rep.undecided("R-C20-e", "%s:%s" % (module, cls), cons, "no class-level default found (anchor moved)")
    rep.analysed["thread_local_objects"] = inv
    return rep.finish()


if __name__ == "__main__":
    core.run_main("C20", main)
