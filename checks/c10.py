#!/venv/bin/python
"""C10 - INDX save then load is the identity: writer/reader table agreement (not a byte round trip)."""
import _indx_common as ic
from sa import core


def main(tier):
    return ic.run(
        "C10", ["R-C10-a", "R-C10-b", "R-C10-c", "R-C10-d", "R-C10-e", "R-C11-c"], "other",
        "byte-level round trip for all inputs (values): decided here are the field tables, cursor arithmetic, helper tables, canonical result types",
        tier, {"R-C10-a": 12, "R-C10-b": 9, "R-C10-c": 8, "R-C10-d": 6, "R-C10-e": 2, "R-C11-c": 2},
        ["host is little-endian", "word sizes in files are 1, 2, 4 or 8"],
        ["CPython ast", "engine P symbolic walker", "NEP 50 promotion facts in sa/kind.py"],
    )


if __name__ == "__main__":
    core.run_main("C10", main)
