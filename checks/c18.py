#!/venv/bin/python
"""C18 - array-cube-only statistics equal the per-cell textbook statistic.

NARROW CLAIM. Declined: the first sentence (cell-by-cell numerical equality with the textbook
statistic; values, floating point).  Decided: the structure of the second sentence -
  R-C18-a  the missing-cell predicate of the standard deviation contains `valid < 2` under
           BOTH policies (plus `missing != 0` under propagation);
  R-C18-b  report-format coherence for stddev, quantile, min, max, corrcoef, covariance: the
           pair-format validity is the negation of the mask at which the sentinel is written;
  R-C18-c  missing inputs are seeded as NaN where validity (fact AND weight validity) is False,
           so NumPy's routines propagate them; under ignore_missing rows are selected by validity
           / the NaN-aware routine is used;
  R-C18-d  delegation table: quantile -> numpy.quantile / nanquantile (axis=0, by policy);
           min/max -> numpy.amin / amax; corrcoef -> numpy.corrcoef(rowvar=False);
           covariance -> numpy.cov(<segment>.T, aweights=...); unweighted stddev divides by N - 1.
"""
import os
import sys

sys.path.insert(0, os.path.dirname(os.path.dirname(os.path.abspath(__file__))))
from sa import core, aggr, aggtables as AT, aggmodel, terms as tm
from sa.terms import T
from sa.pyfront import Program

RULES = {
    "R-C18-h": "aggregate constructors do not overwrite the caller's arrays (imported from the C17 frame analysis): NaN-seeding or zero-filling the caller's own array changes what every later computation over it - the other cube, a group-by, the next statistic - sees",
    "R-C18-g": "standard deviation: the sum of squared deviations is accumulated from deviations (x - mean)**2 (two-pass), not as sum(w*x*x) - mean*sum(w*x), whose subtraction cancels catastrophically for values that are large relative to their spread",
    "R-C18-a": "stddev: a cell with fewer than two valid rows is reported missing under both policies",
    "R-C18-b": "pair-format validity = ~(mask at which the sentinel is written), for every array-cube-only statistic",
    "R-C18-c": "invalid rows are NaN-seeded in the constructor (validity = fact AND weight validity); ignore_missing selects valid rows / uses the NaN-aware routine",
    "R-C18-d": "each statistic delegates to the documented NumPy routine with the documented arguments",
    "R-C18-f": "several fact columns: a per-column statistic (quantile, standard deviation) is never withheld from - or blanked in - one column because of another column's rows: no store into the result is guarded by an any-missing / all-valid test reduced over all columns of the cell at once",
    "R-C18-e": "weighted quantile under propagation: the result depends on every row of the segment through a whole-array NaN test / NaN-propagating reduction, not only through the few elements it selects",
}


def rule_a(prog, rep):
    n = 0
    for w in ("none", "array"):
        for ign in (False, True):
            for rma in AT.RMAS:
                cfg = aggr.Config(weights=w, ignore=ign, rma=rma)
                m = AT.model(prog, "xfuncs", "xfunc_stddev", cfg)
                s = AT.reduce_summary(m)
                where = "xfuncs:xfunc_stddev.reduce"
                cons = "stddev, weights %s, %s, return_missing_as %s" % (w, "ignore" if ign else "propagate", rma)
                if s is None or s[0] is None:
                    rep.undecided("R-C18-a", where, cons, "missing mask not found")
                    continue
                atoms = m.predicate(s[0])
                if atoms is None:
                    rep.undecided("R-C18-a", where, cons, "mask not recognised: %s" % tm.show(s[0])[:60])
                    continue
                n += 1
                kinds = {(k, m.role(p)) for k, p, t in atoms}
                has_lt2 = any(k == "lt2" and r in ("COUNT", "VALIDCOUNT") for k, r in kinds)
                has_miss = any(k == "ne0" and r == "MISSINGCOUNT" for k, r in kinds) or any(k == "ne0" for k, r in kinds)
                ok = has_lt2 and (ign or has_miss)
                rep.check(ok, "R-C18-a", where, cons, " | ".join("%s(%s)" % a for a in sorted(kinds)),
                          "missing when %s: a cell with exactly one valid row is not reported missing although its standard deviation is undefined (NaN value with validity True in the pair format)"
                          % (" | ".join("%s(%s)" % a for a in sorted(kinds))),
                          witness={"inputs": "one cell with a single (valid) row, return_missing_as=(0, False): value nan, validity True"})
    rep.floor("R-C18-a", 12, n)


def rule_b(prog, rep):
    C = AT.Collector()
    n = 0
    for name in ("stddev", "quantile", "corrcoef", "covariance"):
        n += AT.rule_format_coherence(prog, C, "xfuncs", "xfunc_" + name, "%s" % name, rule="R-C18-b")
    n += AT.rule_format_coherence(prog, C, "xfuncs", "xfunc_op_base", "min/max", rule="R-C18-b", cfgs=("none",))
    for rule, status, where, cons, detail, wit in C.items:
        rep.add(rule, where, cons, status, detail, True, wit)
    # the mask is computed from the values before the sentinel replaces them
    for name in ("quantile", "corrcoef", "covariance"):
        m = AT.model(prog, "xfuncs", "xfunc_" + name, aggr.Config(rma="tuple"))
        s = AT.reduce_summary(m)
        ok = s is not None and s[0] is not None and s[0].op == "call" and tm.callee_name(s[0]) == "numpy.isnan" and s[0].args[1] and m.pos_of(s[0].args[1][0]) == 0
        rep.check(ok, "R-C18-b", "xfuncs:xfunc_%s.reduce" % name, "%s: missing mask = isnan(result region) taken before the sentinel is stored" % name, "", "mask is %s" % (s and s[0] is not None and tm.show(s[0])[:60]))
    rep.floor("R-C18-b", 50, n)


def rule_c(prog, rep):
    seeds = {"stddev": "summables", "quantile": "arr", "corrcoef": "arr", "covariance": "arr"}
    for name, field in seeds.items():
        for w in ("none", "array"):
            cfg = aggr.Config(weights=w)
            m = AT.model(prog, "xfuncs", "xfunc_" + name, cfg)
            r = m.rows.get(field)
            where = "xfuncs:xfunc_%s.__init__" % name
            cons = "%s, weights %s: NaN seeding of %s" % (name, w, field)
            if r is None or r[0] == "UNKNOWN":
                rep.undecided("R-C18-c", where, cons, "field not normalised: %s" % (r,))
                continue
            want_valid = ("VALID", "arr") if w == "none" else ("AND", ("VALID", "arr"), ("VALID", "weights"))
            ok = r[0] == "NANAT" and r[2] == ("NOT", want_valid)
            rep.check(ok, "R-C18-c", where, cons, "values[~(%s)] = NaN" % ("fact validity" if w == "none" else "fact AND weight validity"),
                      "the array handed to NumPy is %s: rows that are missing%s are not NaN-seeded, so propagation cannot see them" % (aggmodel.show_row(r), "" if w == "none" else " in the weights"),
                      witness={"inputs": "(values, validity) input with a False validity and ignore_missing=False"})
    # ignore_missing: rows selected by validity (matrix statistics, stddev) or nan-aware routine (quantile)
    for name in ("corrcoef", "covariance", "stddev"):
        m = AT.model(prog, "xfuncs", "xfunc_" + name, aggr.Config(ignore=True))
        fi, I, fr = m.fill
        valid_t = m.fields.get("validity")
        sel = any(tm.contains(v, lambda x: x.op == "sub" and x.args[1] == valid_t) for ev in I.events for v in AT._terms(ev))
        rep.check(sel, "R-C18-c", "xfuncs:xfunc_%s.fill" % name, "%s, ignore_missing: rows are selected by validity before the statistic is computed" % name, "", "no selection by validity under ignore_missing",
                  witness={"inputs": "a cell with one missing row: the result must be computed from the others"})
    for ign, want in ((False, "numpy.quantile"), (True, "numpy.nanquantile")):
        m = AT.model(prog, "xfuncs", "xfunc_quantile", aggr.Config(ignore=ign))
        q = m.fields.get("qfunc")
        rep.check(q is not None and tm.dotted(q) == want, "R-C18-d", "xfuncs:xfunc_quantile.__init__", "quantile, %s: delegates to %s" % ("ignore" if ign else "propagate", want), "",
                  "qfunc is %s" % (q is not None and tm.show(q)))


def rule_d(prog, rep):
    # quantile call arguments
    m = AT.model(prog, "xfuncs", "xfunc_quantile", aggr.Config())
    fi, I, fr = m.fill
    qs = [e for e in I.events if e.kind == "call" and e["name"] in ("numpy.quantile", "numpy.nanquantile")]
    ok = bool(qs) and all(dict(e["kwargs"]).get("axis") == tm.const(0) and len(e["args"]) == 2 and not [k for k, v in e["kwargs"] if k in ("method", "interpolation")] for e in qs)
    rep.check(ok, "R-C18-d", fi.fq, "quantile(segment, probability, axis=0) with NumPy's default (linear) method", "%d call sites" % len(qs), "quantile is called with other arguments")
    # min / max
    for cls, want in (("xfunc_max", "numpy.amax"), ("xfunc_min", "numpy.amin")):
        ci = prog.cls("xfuncs", cls)
        _, expr = prog.lookup_class_attr(ci, "op")
        import ast

        ok = False
        if isinstance(expr, ast.Call) and getattr(expr.func, "id", None) == "staticmethod" and expr.args:
            a = expr.args[0]
            nm = "%s.%s" % (getattr(a.value, "id", "?"), a.attr) if isinstance(a, ast.Attribute) else None
            ok = nm in (want, want.replace("amax", "max").replace("amin", "min"), want.replace("amax", "nanmax") if False else want)
        rep.check(ok, "R-C18-d", ci.fq, "%s delegates to %s" % (cls, want), "", "op is %s" % (expr is not None and ast.unparse(expr)))
    mo = AT.model(prog, "xfuncs", "xfunc_op_base", aggr.Config())
    fi, I, fr = mo.fill
    ops = [e for e in I.events if e.kind == "call" and e["f"].op == "attr" and e["f"].args[1] == "op"]
    rep.check(bool(ops) and all(dict(e["kwargs"]).get("axis") == tm.const(0) for e in ops), "R-C18-d", fi.fq, "min/max reduce over the rows of the cell (axis=0)", "%d call sites" % len(ops), "")
    # corrcoef / cov
    mc = AT.model(prog, "xfuncs", "xfunc_corrcoef", aggr.Config())
    fi, I, fr = mc.fill
    cc = [e for e in I.events if e.kind == "call" and e["name"] == "numpy.corrcoef"]
    rep.check(bool(cc) and all(dict(e["kwargs"]).get("rowvar") == tm.FALSE for e in cc), "R-C18-d", fi.fq, "corrcoef delegates to numpy.corrcoef(segment, rowvar=False)", "%d call sites" % len(cc), "rowvar=False missing: variables would be taken from rows")
    for w in ("none", "array"):
        mv = AT.model(prog, "xfuncs", "xfunc_covariance", aggr.Config(weights=w))
        fi, I, fr = mv.fill
        cv = [e for e in I.events if e.kind == "call" and e["name"] == "numpy.cov"]
        okT = bool(cv) and all(e["args"] and e["args"][0].op == "attr" and e["args"][0].args[1] == "T" for e in cv)
        okw = all(any(k == "aweights" for k, v in e["kwargs"]) for e in cv)
        rep.check(okT and okw, "R-C18-d", fi.fq, "covariance (weights %s) delegates to numpy.cov(segment.T, aweights=...)" % w, "%d call sites" % len(cv), "numpy.cov is not given the transposed segment with aweights")
    # unweighted stddev: sqrt(varsums / (N - 1))
    for co in (True, False):
        ms = AT.model(prog, "xfuncs", "xfunc_stddev", aggr.Config(coords=co, N=not co))
        fi, I, fr = ms.fill
        sq = [e for e in I.events if e.kind == "call" and e["name"] == "numpy.sqrt"]
        ok = bool(sq) and all(e["args"][0].op == "binop" and e["args"][0].args[0] == "/" and e["args"][0].args[2].op == "binop" and e["args"][0].args[2].args[0] == "-" and tm.is_const(e["args"][0].args[2].args[2], 1) for e in sq)
        rep.check(ok, "R-C18-d", fi.fq, "unweighted stddev (%s) = sqrt(sum of squared deviations / (N - 1))" % ("by coordinates" if co else "no coordinates"), "%d call sites" % len(sq), "divisor is not N - 1",
                  witness={"inputs": "two rows 1 and 3: 1.414 expected"})


def rule_e(prog, rep):
    """A missing (NaN) value sorts to the end of the segment; a result assembled only from selected elements
    (a[left], xdiff[left]) never sees it unless the quantile happens to land there."""
    m = AT.model(prog, "xfuncs", "xfunc_quantile", aggr.Config(weights="array", ignore=False))
    fi, I, fr = m.run("weighted_quantile")
    where = fi.fq
    rets = [ev for ev in I.events if ev.kind == "return" and ev.stack and not tm.is_const(ev["value"])]
    rets = [ev for ev in rets if not (ev["value"].op == "call" and tm.callee_name(ev["value"]) == "builtins.float")]
    rets = [ev for ev in rets if tm.contains(ev["value"], lambda x: x.op == "slice1d")]
    if not rets:
        rep.undecided("R-C18-e", where, "weighted quantile kernel", "per-column kernel not found (not called through numpy.apply_along_axis with a local function)")
        return
    for ev in rets:
        v = ev["value"]
        leaf = [x for x in tm.walk(v) if x.op == "slice1d"][0]

        def whole_array_test(t):
            """isnan(<a>) reduced by any()/sum(), or a NaN-propagating reduction of <a>, anywhere in t"""
            for x in tm.walk(t):
                if x.op == "call":
                    nm = tm.callee_name(x) or ""
                    if nm in ("numpy.any", "numpy.sum", ".any", ".sum", "numpy.max", "numpy.min", "numpy.mean") and tm.contains(x, lambda y: y == leaf):
                        inner = x.args[1][0] if x.args[1] else x.args[0].args[0]
                        if nm in ("numpy.any", ".any"):
                            if tm.contains(inner, lambda y: y.op == "call" and tm.callee_name(y) == "numpy.isnan" and tm.contains(y, lambda z: z == leaf)):
                                return True
                        else:
                            return True
                if x.op == "sub" and tm.contains(x.args[0], lambda y: y == leaf) and tm.is_const(x.args[1], -1):
                    # a[-1] of the sorted segment: NaN sorts last
                    if any(c.op == "call" and tm.callee_name(c) == "numpy.isnan" for c in [t]):
                        return True
            return False

        def filtered_before_test(t):
            """the operand of the missing test reaches the column only through a row selection (boolean mask / comparison
            index), so some rows never take part in the test"""
            for x in tm.walk(t):
                if x.op == "call" and tm.callee_name(x) == "numpy.isnan" and x.args[1] and tm.contains(x.args[1][0], lambda y: y == leaf):
                    cur = x.args[1][0]
                    while cur != leaf and cur.op in ("sub", "call", "attr"):
                        if cur.op == "sub":
                            idx = cur.args[1]
                            perm = idx.op == "call" and (tm.callee_name(idx) or "") in (".argsort", "numpy.argsort", "numpy.lexsort")
                            if not perm and tm.contains(idx, lambda y: y.op in ("cmp", "unop") or (y.op == "call" and (tm.callee_name(y) or "") in ("numpy.isnan", "numpy.isfinite", "numpy.nonzero", "numpy.flatnonzero", "numpy.where"))):
                                return idx
                            cur = cur.args[0]
                        elif cur.op == "call" and (tm.callee_name(cur) or "").startswith("."):
                            cur = cur.args[0].args[0]
                        elif cur.op == "attr":
                            cur = cur.args[0]
                        else:
                            break
            return None

        guarded = any(whole_array_test(c) for c, pol in ev.guards)
        sel = None
        for c, pol in ev.guards:
            sel = sel or filtered_before_test(c)
        if sel is not None:
            rep.violated("R-C18-e", "%s@%d" % (where, ev.line), "weighted quantile, propagate: the missing test sees every row of the segment",
                         "rows are selected by %s BEFORE the missing test: a missing fact value on a row that the selection drops (zero or negative weight) no longer makes the cell missing" % tm.show(sel)[:50],
                         witness={"inputs": "quantile of [1, 2, nan] with weights [1, 1, 0], ignore_missing=False -> a number instead of nan (both report formats)"})
            continue
        gather_only = True
        for x in tm.walk(v):
            if x.op == "call" and (tm.callee_name(x) or "") in ("numpy.sum", ".sum", "numpy.nansum", "numpy.mean", "numpy.max", "numpy.min") and tm.contains(x, lambda y: y == leaf):
                gather_only = False
        ok = guarded or not gather_only
        rep.check(ok, "R-C18-e", "%s@%d" % (where, ev.line), "weighted quantile, propagate: result sees every row of the segment",
                  "a whole-array missing test dominates the result" if guarded else "NaN-propagating reduction",
                  "the result is assembled from selected elements only (a[left] + frac * xdiff[left]) and no any-missing test precedes it: a missing value that sorts beyond the quantile is ignored although missing values must propagate",
                  witness={"inputs": "quantile([1, 2, nan], 0.1, weights=[1, 1, 1]) -> 1.0; the unweighted call returns nan"})


REDUCERS = {"numpy.any": "any", ".any": "any", "numpy.all": "all", ".all": "all", "numpy.sum": "sum", ".sum": "sum", "numpy.count_nonzero": "sum",
            "numpy.max": "ext", ".max": "ext", "numpy.min": "ext", ".min": "ext", "numpy.mean": "sum", ".mean": "sum", "numpy.nansum": "sum"}


def _fact_leaf(x):
    """values / validity of the fact argument"""
    if x.op == "unpack" and x.args[0].op == "call" and (tm.callee_name(x.args[0]) or "").endswith("as_separate_validity"):
        src = x.args[0].args[1][0]
        return src.op == "param" and src.args[0] not in ("weights",)
    return False


def _multi_column(t):
    """Does t denote an array that keeps all fact columns of the cell (not one column, not a 1-D slice)?"""
    if not tm.contains(t, _fact_leaf):
        return False
    if tm.contains(t, lambda x: x.op == "slice1d"):
        return False
    # X[:, j] selects one column
    if tm.contains(t, lambda x: x.op == "sub" and x.args[1].op == "tuple" and len(x.args[1].args) == 2 and x.args[1].args[0].op == "slice" and x.args[1].args[1].op != "slice"):
        return False
    return True


def _pred_kind(p):
    """'missing' / 'valid' / None for the operand of an any()/all()"""
    neg = False
    while p.op == "unop" and p.args[0] in ("~", "not"):
        neg = not neg
        p = p.args[1]
    kind = None
    if p.op == "call" and tm.callee_name(p) == "numpy.isnan":
        kind = "missing"
    elif tm.contains(p, lambda x: x.op == "unpack" and x.args[1] == 1 and x.args[0].op == "call" and (tm.callee_name(x.args[0]) or "").endswith("as_separate_validity")) \
            and not tm.contains(p, lambda x: x.op == "call" and tm.callee_name(x) == "numpy.isnan"):
        kind = "valid"
    if kind is None:
        return None
    if neg:
        kind = "valid" if kind == "missing" else "missing"
    return kind


def rule_f(prog, rep):
    from sa.symex import flat_guards
    n = 0
    for cls, label in (("xfunc_quantile", "quantile"), ("xfunc_stddev", "standard deviation")):
        for w in ("none", "array"):
            for ign in (False, True):
                for co in (True, False):
                    cfg = aggr.Config(weights=w, ignore=ign, rma="nan", ndim=2, coords=co, N=not co)
                    m = AT.model(prog, "xfuncs", cls, cfg)
                    fi, I, fr = m.fill
                    seen = set()
                    stores = [e for e in I.events if e.kind == "store_sub"]
                    for e in stores:
                        for c, pol in flat_guards(e.guards):
                            for x in tm.walk(c):
                                if x.op != "call" or (tm.callee_name(x) or "") not in REDUCERS:
                                    continue
                                nm = tm.callee_name(x)
                                operand = x.args[0].args[0] if nm.startswith(".") else (x.args[1][0] if x.args[1] else None)
                                rest = x.args[1] if nm.startswith(".") else x.args[1][1:]
                                if operand is None or tm.kwarg(x, "axis") is not None or rest:
                                    continue  # reduced per column (axis given)
                                if not _multi_column(operand):
                                    continue
                                key = (tm.show(x)[:200], pol, e.line)
                                if key in seen:
                                    continue
                                seen.add(key)
                                n += 1
                                red = REDUCERS[nm]
                                pk = _pred_kind(operand)
                                # polarity of the reduction inside the atom: `not R(...)` flips
                                neg = c.op == "unop" and c.args[0] == "not" and c.args[1] == x
                                direct = c == x or neg
                                eff = (pol != neg) if direct else None
                                where = "xfuncs:%s.fill@%d" % (cls, e.line)
                                cons = "%s, weights %s, %s, %s: store guarded by %s(%s) over all columns" % (label, w, "ignore" if ign else "propagate", "by coordinates" if co else "no coordinates", red, pk or "?")
                                harmless = (red == "all" and pk == "missing") or (red == "any" and pk == "valid")
                                cross = direct and ((red == "any" and pk == "missing" and eff is False) or (red == "all" and pk == "valid" and eff is True))
                                if harmless:
                                    rep.proved("R-C18-f", where, cons, "an all-missing test: every column of the cell is missing when it skips")
                                elif cross:
                                    rep.violated("R-C18-f", where, cons, "the store happens only when NO row of ANY column is missing: one column's missing value blanks the statistic of every other column of the cell",
                                                 witness={"inputs": "two fact columns, a cell whose rows are [[1, nan], [2, 5], [3, 6]]: column 0 has no missing value but its %s comes back missing" % label})
                                else:
                                    rep.undecided("R-C18-f", where, cons, "a whole-cell reduction over several columns guards a per-column store; its meaning is not recognised")
    rep.floor("R-C18-f", 4, n)


def rule_g(prog, rep):
    n = 0
    for w in ("none", "array"):
        for co in (True, False):
            ms = AT.model(prog, "xfuncs", "xfunc_stddev", aggr.Config(weights=w, coords=co, N=not co))
            fi, I, fr = ms.fill
            sq = [e for e in I.events if e.kind == "call" and e["name"] == "numpy.sqrt" and e["args"]]
            for e in sq:
                t = e["args"][0]
                while t.op == "binop" and t.args[0] in ("/", "*"):
                    t = t.args[1]
                while t.op == "call" and (tm.callee_name(t) or "") in (".clip", "numpy.clip", "numpy.maximum", "numpy.abs", "builtins.abs", ".astype"):
                    t = t.args[0].args[0] if tm.callee_name(t).startswith(".") else t.args[1][0]
                n += 1
                where = "%s@%d" % (fi.fq, e.line)
                cons = "stddev (weights %s, %s): numerator of the variance" % (w, "by coordinates" if co else "no coordinates")
                red = t.op == "call" and (tm.callee_name(t) or "") in ("numpy.nansum", "numpy.sum", "numpy.bincount", ".sum")
                if red:
                    data = tm.kwarg(t, "weights") if tm.callee_name(t) == "numpy.bincount" else (t.args[1][0] if t.args[1] else t.args[0].args[0])
                    if data is None and tm.callee_name(t) == "numpy.bincount" and len(t.args[1]) > 1:
                        data = t.args[1][1]
                    dev2 = data is not None and tm.contains(data, lambda x: x.op == "binop" and ((x.args[0] == "**" and tm.is_const(x.args[2], 2) and tm.contains(x.args[1], lambda y: y.op == "binop" and y.args[0] == "-"))
                                                                                             or (x.args[0] == "*" and x.args[1] == x.args[2] and x.args[1].op == "binop" and x.args[1].args[0] == "-")))
                    if dev2:
                        rep.proved("R-C18-g", where, cons, "a reduction of squared deviations (x - mean)**2")
                    else:
                        rep.undecided("R-C18-g", where, cons, "a reduction, but not of a squared difference: %s" % tm.show(data)[:60] if data is not None else "a reduction whose operand is not found")
                elif t.op == "binop" and t.args[0] == "-" and all(tm.contains(x, lambda y: y.op == "call" and (tm.callee_name(y) or "") in ("numpy.nansum", "numpy.sum", "numpy.bincount", ".sum")) for x in t.args[1:]):
                    rep.violated("R-C18-g", where, cons, "computed as a DIFFERENCE of two accumulated sums (sum(w*x*x) - mean*sum(w*x)): for values large relative to their spread the subtraction cancels catastrophically and the result is 0 or wrong by up to 100%",
                                 witness={"inputs": "a cell with values around 1.7e9 (epoch seconds) and a spread of a few tens: the standard deviation comes back 0.0 or far off, and adding a constant to every value changes it"})
                else:
                    rep.undecided("R-C18-g", where, cons, "form not recognised: %s" % tm.show(t)[:70])
    rep.floor("R-C18-g", 4, n)


def main(tier):
    rep = core.Report("C18", level="other", rules=RULES, tier=tier,
                      declined="per-cell numerical equality with the textbook statistic (floating-point values)")
    rep.trusted_base = ["CPython ast", "symbolic walker + configuration oracle", "aggregate algebra normaliser", "NumPy: quantile/corrcoef/cov/amin/amax propagate NaN; nanquantile ignores NaN"]
    prog = Program()
    rule_a(prog, rep)
    rule_b(prog, rep)
    rule_c(prog, rep)
    rule_d(prog, rep)
    rule_e(prog, rep)
    rule_f(prog, rep)
    rule_g(prog, rep)
    import c17
    sub17 = core.Report("C17", level="other", rules=c17.RULES, tier=tier)
    st17 = {"events": 0, "mods": 0, "diagnostic": {}, "exceptions": {}, "regions": 0, "shortcuts": 0}
    k17 = 0
    for fi17, kind17 in c17.build_roots(prog):
        if kind17 == "ctor" and fi17.module in ('xfuncs',) and not fi17.opaque:
            c17.analyse_root(prog, fi17, kind17, sub17, st17)
            k17 += 1
    for o in sub17.obls:
        if o.rule == "R-C17-a":
            rep.add("R-C18-h", o.where, "[%s] %s" % (o.rule, o.construct), o.status, o.detail, True, o.witness)
    rep.floor("R-C18-h", 5, k17)
    return rep.finish()


if __name__ == "__main__":
    core.run_main("C18", main)
