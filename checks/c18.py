#!/venv/bin/python
"""C18 - array-cube-only statistics equal the per-cell textbook statistic.

NARROW CLAIM. Declined: the first sentence (cell-by-cell numerical equality with the textbook
statistic; values, floating point).  Decided: the structure of the second sentence -
  R-C18-a  the missing-cell predicate of the standard deviation contains `valid < 2` under
           BOTH policies (plus `missing != 0` under propagation);
  R-C18-b  report-format coherence for stddev, quantile, min, max, corrcoef, covariance: the
           pair-format validity is the negation of the mask at which the sentinel is written;
  R-C18-c  missing inputs are seeded as NaN where validity (fact AND weight validity) is False,
           so NumPy's routines propagate them; under ignore_missing rows are selected by validity
           / the NaN-aware routine is used;
  R-C18-d  delegation table: quantile -> numpy.quantile / nanquantile (axis=0, by policy);
           min/max -> numpy.amin / amax; corrcoef -> numpy.corrcoef(rowvar=False);
           covariance -> numpy.cov(<segment>.T, aweights=...); unweighted stddev divides by N - 1.
"""
import os
import sys

sys.path.insert(0, os.path.dirname(os.path.dirname(os.path.abspath(__file__))))
from sa import core, aggr, aggtables as AT, aggmodel, terms as tm
from sa.terms import T
from sa.pyfront import Program

RULES = {
    "R-C18-m": "the input-format helper as_separate_validity (summarised by every aggregate rule) keeps its contract: a (values, validity) pair is passed through; a single array gets validity = ~isnan(array) for every dtype with a missing marker (all float widths, datetime64 / timedelta64 NaT) - a dtype shortcut to all-True is accepted only for marker-free kinds",
    "R-C18-l": "with several fact columns and per-row weights the constructor fields stay (rows, columns): paired transposes around every combination with the weight vector",
    "R-C18-k": "weighted quantile, invariance under rescaling all weights: quantities derived from the weights are compared only with 0 or with each other, never with an absolute tolerance (isclose / allclose default atol) or a non-zero literal",
    "R-C18-j": "standard deviation, dispatch and arithmetic: one column is handed over whole, several columns are filled one by one (column i of every row array into column i of every region, for all i); a cell needs at least 2 rows; both fill routines scale the weighted variance by N / (N - 1); valid and missing rows are counted per column",
    "R-C18-i": "minimum / maximum: a cell that receives a value is marked valid in the same breath (value store and validity store under the same guards), per branch: ignoring - the valid rows of the cell, non-empty; propagating - all rows, non-empty and all valid",
    "R-C18-h": "aggregate constructors do not overwrite the caller's arrays (imported from the C17 frame analysis): NaN-seeding or zero-filling the caller's own array changes what every later computation over it - the other cube, a group-by, the next statistic - sees",
    "R-C18-g": "standard deviation: the sum of squared deviations is accumulated from deviations (x - mean)**2 (two-pass), not as sum(w*x*x) - mean*sum(w*x), whose subtraction cancels catastrophically for values that are large relative to their spread",
    "R-C18-a": "stddev: a cell with fewer than two valid rows is reported missing under both policies",
    "R-C18-b": "pair-format validity = ~(mask at which the sentinel is written), for every array-cube-only statistic",
    "R-C18-c": "invalid rows are NaN-seeded in the constructor (validity = fact AND weight validity); ignore_missing selects valid rows / uses the NaN-aware routine",
    "R-C18-d": "each statistic delegates to the documented NumPy routine with the documented arguments",
    "R-C18-f": "several fact columns: a per-column statistic (quantile, standard deviation) is never withheld from - or blanked in - one column because of another column's rows: no store into the result is guarded by an any-missing / all-valid test reduced over all columns of the cell at once",
    "R-C18-e": "weighted quantile under propagation: the result depends on every row of the segment through a whole-array NaN test / NaN-propagating reduction, not only through the few elements it selects",
}


def rule_a(prog, rep):
    n = 0
    for w in ("none", "array"):
        for ign in (False, True):
            for rma in AT.RMAS:
                cfg = aggr.Config(weights=w, ignore=ign, rma=rma)
                m = AT.model(prog, "xfuncs", "xfunc_stddev", cfg)
                s = AT.reduce_summary(m)
                where = "xfuncs:xfunc_stddev.reduce"
                cons = "stddev, weights %s, %s, return_missing_as %s" % (w, "ignore" if ign else "propagate", rma)
                if s is None or s[0] is None:
                    rep.undecided("R-C18-a", where, cons, "missing mask not found")
                    continue
                atoms = m.predicate(s[0])
                if atoms is None:
                    rep.undecided("R-C18-a", where, cons, "mask not recognised: %s" % tm.show(s[0])[:60])
                    continue
                n += 1
                kinds = {(k, m.role(p)) for k, p, t in atoms}
                has_lt2 = any(k == "lt2" and r in ("COUNT", "VALIDCOUNT") for k, r in kinds)
                has_miss = any(k == "ne0" and r == "MISSINGCOUNT" for k, r in kinds) or any(k == "ne0" for k, r in kinds)
                ok = has_lt2 and (ign or has_miss)
                if not ok and any(r in ("?", None) for k, r in kinds):
                    # the mask tests a region whose fill this model could not read (the fill was restructured): which
                    # counter it is - and so whether the "fewer than two valid rows" test is there - is not decided
                    rep.undecided("R-C18-a", where, cons, "the mask tests %s, but the region behind `?` is filled in a form the model does not read" % " | ".join("%s(%s)" % a for a in sorted(kinds, key=str)))
                    continue
                rep.check(ok, "R-C18-a", where, cons, " | ".join("%s(%s)" % a for a in sorted(kinds)),
                          "missing when %s: a cell with exactly one valid row is not reported missing although its standard deviation is undefined (NaN value with validity True in the pair format)"
                          % (" | ".join("%s(%s)" % a for a in sorted(kinds))),
                          witness={"inputs": "one cell with a single (valid) row, return_missing_as=(0, False): value nan, validity True"})
    rep.floor("R-C18-a", 12, n)


def rule_b(prog, rep):
    C = AT.Collector()
    n = 0
    for name in ("stddev", "quantile", "corrcoef", "covariance"):
        n += AT.rule_format_coherence(prog, C, "xfuncs", "xfunc_" + name, "%s" % name, rule="R-C18-b")
    n += AT.rule_format_coherence(prog, C, "xfuncs", "xfunc_op_base", "min/max", rule="R-C18-b", cfgs=("none",))
    for rule, status, where, cons, detail, wit in C.items:
        rep.add(rule, where, cons, status, detail, True, wit)
    # the mask is computed from the values before the sentinel replaces them
    for name in ("quantile", "corrcoef", "covariance"):
        m = AT.model(prog, "xfuncs", "xfunc_" + name, aggr.Config(rma="tuple"))
        s = AT.reduce_summary(m)
        ok = s is not None and s[0] is not None and s[0].op == "call" and tm.callee_name(s[0]) == "numpy.isnan" and s[0].args[1] and m.pos_of(s[0].args[1][0]) == 0
        rep.check(ok, "R-C18-b", "xfuncs:xfunc_%s.reduce" % name, "%s: missing mask = isnan(result region) taken before the sentinel is stored" % name, "", "mask is %s" % (s and s[0] is not None and tm.show(s[0])[:60]))
    rep.floor("R-C18-b", 50, n)


def _incomplete(I):
    """Did the walker meet something it could not follow in this activation (arguments passed through *args, a generator
    whose elements it cannot pair up, an unsupported statement)?  A rule that did not find its pattern then says UNDECIDED:
    the pattern may be behind the part that was not read."""
    for ev in I.events:
        if ev.kind == "unsupported":
            return "unsupported statement at line %d" % ev.line
        for v in AT._terms(ev):
            if tm.contains(v, lambda x: x.op == "unknown"):
                return "a value the walker could not follow (%s) at line %d" % (tm.show(v)[:50], ev.line)
    return None


def rule_c(prog, rep):
    seeds = {"stddev": "summables", "quantile": "arr", "corrcoef": "arr", "covariance": "arr"}
    for name, field in seeds.items():
        for w in ("none", "array"):
            cfg = aggr.Config(weights=w)
            m = AT.model(prog, "xfuncs", "xfunc_" + name, cfg)
            r = m.rows.get(field)
            where = "xfuncs:xfunc_%s.__init__" % name
            cons = "%s, weights %s: NaN seeding of %s" % (name, w, field)
            if r is None or r[0] == "UNKNOWN":
                rep.undecided("R-C18-c", where, cons, "field not normalised: %s" % (r,))
                continue
            want_valid = ("VALID", "arr") if w == "none" else ("AND", ("VALID", "arr"), ("VALID", "weights"))
            ok = r[0] == "NANAT" and r[2] == ("NOT", want_valid)
            rep.check(ok, "R-C18-c", where, cons, "values[~(%s)] = NaN" % ("fact validity" if w == "none" else "fact AND weight validity"),
                      "the array handed to NumPy is %s: rows that are missing%s are not NaN-seeded, so propagation cannot see them" % (aggmodel.show_row(r), "" if w == "none" else " in the weights"),
                      witness={"inputs": "(values, validity) input with a False validity and ignore_missing=False"})
    # ignore_missing: rows selected by validity (matrix statistics, stddev) or nan-aware routine (quantile)
    for name in ("corrcoef", "covariance", "stddev"):
        m = AT.model(prog, "xfuncs", "xfunc_" + name, aggr.Config(ignore=True))
        fi, I, fr = m.fill
        valid_t = m.fields.get("validity")
        sel = any(tm.contains(v, lambda x: x.op == "sub" and x.args[1] == valid_t) for ev in I.events for v in AT._terms(ev))
        if not sel and _incomplete(I):
            rep.undecided("R-C18-c", "xfuncs:xfunc_%s.fill" % name, "%s, ignore_missing: rows are selected by validity before the statistic is computed" % name, "no selection found, but the fill was not read completely: %s" % _incomplete(I))
            continue
        rep.check(sel, "R-C18-c", "xfuncs:xfunc_%s.fill" % name, "%s, ignore_missing: rows are selected by validity before the statistic is computed" % name, "", "no selection by validity under ignore_missing",
                  witness={"inputs": "a cell with one missing row: the result must be computed from the others"})
    for ign, want in ((False, "numpy.quantile"), (True, "numpy.nanquantile")):
        m = AT.model(prog, "xfuncs", "xfunc_quantile", aggr.Config(ignore=ign))
        q = m.fields.get("qfunc")
        rep.check(q is not None and tm.dotted(q) == want, "R-C18-d", "xfuncs:xfunc_quantile.__init__", "quantile, %s: delegates to %s" % ("ignore" if ign else "propagate", want), "",
                  "qfunc is %s" % (q is not None and tm.show(q)))


def rule_d(prog, rep):
    # quantile call arguments, with and without dimensions; every branch stores its result
    for co in (True, False):
        m = AT.model(prog, "xfuncs", "xfunc_quantile", aggr.Config(coords=co, N=not co))
        fi, I, fr = m.fill
        qs = [e for e in I.events if e.kind == "call" and e["name"] in ("numpy.quantile", "numpy.nanquantile")]
        ok = bool(qs) and all(dict(e["kwargs"]).get("axis") == tm.const(0) and len(e["args"]) == 2 and not [k for k, v in e["kwargs"] if k in ("method", "interpolation")] for e in qs)
        rep.check(ok, "R-C18-d", fi.fq, "quantile(segment, probability, axis=0) with NumPy's default (linear) method (%s)" % ("by coordinates" if co else "no coordinates"), "%d call sites" % len(qs),
                  "quantile is called with other arguments (without axis=0 several fact columns are flattened into one)", witness={"inputs": "two fact columns%s" % ("" if co else ", xcube([])")})
        for w in ("none", "array"):
            mw = AT.model(prog, "xfuncs", "xfunc_quantile", aggr.Config(weights=w, coords=co, N=not co))
            f2, I2, fr2 = mw.fill
            st = [e for e in I2.events if e.kind == "store_sub" and not e.stack and e["value"].op == "call"]
            rep.check(len(st) >= 1, "R-C18-d", f2.fq, "quantile (weights %s, %s): the result is stored into the region" % (w, "by coordinates" if co else "no coordinates"), "%d store(s)" % len(st),
                      "no store of a computed quantile on this branch: every cell stays NaN", witness={"inputs": "any data in this configuration"})
    # negative weights are zeroed in the constructor (documented; keeps the result inside [min, max] of the cell)
    mq = AT.model(prog, "xfuncs", "xfunc_quantile", aggr.Config(weights="array"))
    neg = [e for e in mq.I0.events if e.kind == "store_sub" and tm.is_const(e["value"], 0) and tm.contains(e["index"], lambda x: x.op == "cmp" and x.args[0] in ("<", "<=") and tm.is_const(x.args[2], 0))]
    rep.check(len(neg) >= 1, "R-C18-d", "xfuncs:xfunc_quantile.__init__", "negative weights are set to 0", "weights[weights < 0] = 0", "negative weights are used as they are: the weighted quantile can leave the range of the cell's values",
              witness={"inputs": "weights [-1, 2, 1]"})
    # min / max
    for cls, want in (("xfunc_max", "numpy.amax"), ("xfunc_min", "numpy.amin")):
        ci = prog.cls("xfuncs", cls)
        _, expr = prog.lookup_class_attr(ci, "op")
        import ast

        ok = False
        if isinstance(expr, ast.Call) and getattr(expr.func, "id", None) == "staticmethod" and expr.args:
            a = expr.args[0]
            nm = "%s.%s" % (getattr(a.value, "id", "?"), a.attr) if isinstance(a, ast.Attribute) else None
            ok = nm in (want, want.replace("amax", "max").replace("amin", "min"), want.replace("amax", "nanmax") if False else want)
        rep.check(ok, "R-C18-d", ci.fq, "%s delegates to %s" % (cls, want), "", "op is %s" % (expr is not None and ast.unparse(expr)))
    for co in (True, False):
        for ign in (False, True):
            mo = AT.model(prog, "xfuncs", "xfunc_op_base", aggr.Config(coords=co, N=not co, ignore=ign))
            fi, I, fr = mo.fill
            ops = [e for e in I.events if e.kind == "call" and e["f"].op == "attr" and e["f"].args[1] == "op"]
            rep.check(bool(ops) and all(dict(e["kwargs"]).get("axis") == tm.const(0) for e in ops), "R-C18-d", fi.fq,
                      "min/max reduce over the rows of the cell (axis=0) (%s, %s)" % ("by coordinates" if co else "no coordinates", "ignore" if ign else "propagate"), "%d call sites" % len(ops),
                      "the reduction is not over axis 0", witness={"inputs": "facts of shape (N, 1)"})
    # corrcoef / cov, with and without dimensions; every branch stores its result
    for co in (True, False):
        tag = "by coordinates" if co else "no coordinates"
        mc = AT.model(prog, "xfuncs", "xfunc_corrcoef", aggr.Config(coords=co, N=not co))
        fi, I, fr = mc.fill
        cc = [e for e in I.events if e.kind == "call" and e["name"] == "numpy.corrcoef"]
        rep.check(bool(cc) and all(dict(e["kwargs"]).get("rowvar") == tm.FALSE and len(e["args"]) == 1 for e in cc), "R-C18-d", fi.fq, "corrcoef delegates to numpy.corrcoef(segment, rowvar=False) (%s)" % tag, "%d call sites" % len(cc),
                  "rowvar=False missing: variables would be taken from rows", witness={"inputs": "three rows, two fact columns"})
        st = [e for e in I.events if e.kind == "store_sub" and tm.contains(e["value"], lambda x: x.op == "call" and tm.callee_name(x) == "numpy.corrcoef")]
        rep.check(len(st) >= 1, "R-C18-d", fi.fq, "corrcoef (%s): the matrix is stored into the region" % tag, "%d store(s)" % len(st), "no store of the computed matrix on this branch: every cell stays NaN", witness={"inputs": "any data in this configuration"})
        for w in ("none", "array"):
            mv = AT.model(prog, "xfuncs", "xfunc_covariance", aggr.Config(weights=w, coords=co, N=not co))
            fi, I, fr = mv.fill
            cv = [e for e in I.events if e.kind == "call" and e["name"] == "numpy.cov"]
            okT = bool(cv) and all(e["args"] and e["args"][0].op == "attr" and e["args"][0].args[1] == "T" for e in cv)
            okw = all(any(k == "aweights" for k, v in e["kwargs"]) for e in cv)
            rep.check(okT and okw, "R-C18-d", fi.fq, "covariance (weights %s, %s) delegates to numpy.cov(segment.T, aweights=...)" % (w, tag), "%d call sites" % len(cv), "numpy.cov is not given the transposed segment with aweights")
            st = [e for e in I.events if e.kind == "store_sub" and tm.contains(e["value"], lambda x: x.op == "call" and tm.callee_name(x) == "numpy.cov")]
            rep.check(len(st) >= 1, "R-C18-d", fi.fq, "covariance (weights %s, %s): the matrix is stored into the region" % (w, tag), "%d store(s)" % len(st), "no store of the computed matrix on this branch: every cell stays NaN",
                      witness={"inputs": "any data in this configuration"})
    # complete cases: a per-column validity is reduced to one flag per row, a per-row validity is left alone
    for name in ("corrcoef", "covariance"):
        complete_cases(prog, rep, name)
        complete_cases_axis(prog, rep, name)
    # unweighted stddev: sqrt(varsums / (N - 1))
    for co in (True, False):
        ms = AT.model(prog, "xfuncs", "xfunc_stddev", aggr.Config(coords=co, N=not co))
        fi, I, fr = ms.fill
        sq = [e for e in I.events if e.kind == "call" and e["name"] == "numpy.sqrt"]
        ok = bool(sq) and all(e["args"][0].op == "binop" and e["args"][0].args[0] == "/" and e["args"][0].args[2].op == "binop" and e["args"][0].args[2].args[0] == "-" and tm.is_const(e["args"][0].args[2].args[2], 1) for e in sq)
        if not ok and (not sq or _incomplete(I)):
            rep.undecided("R-C18-d", fi.fq, "unweighted stddev (%s) = sqrt(sum of squared deviations / (N - 1))" % ("by coordinates" if co else "no coordinates"),
                          "the square root was not found in the recognised form and the fill was not read completely: %s" % (_incomplete(I) or "no numpy.sqrt call reached"))
            continue
        rep.check(ok, "R-C18-d", fi.fq, "unweighted stddev (%s) = sqrt(sum of squared deviations / (N - 1))" % ("by coordinates" if co else "no coordinates"), "%d call sites" % len(sq), "divisor is not N - 1",
                  witness={"inputs": "two rows 1 and 3: 1.414 expected"})


def _is_int(t):
    return tm.is_const(t) and type(tm.constval(t)) is int


def _ndim_guard_truth(c, pol):
    """For a guard comparing <x>.ndim with an integer literal: the set of ndim in {1, 2, 3} for which it holds; None when
    it is not such a guard."""
    if c.op != "cmp" or len(c.args) != 3:
        return None
    op, a, b = c.args
    flip = {"<": ">", ">": "<", "<=": ">=", ">=": "<=", "==": "==", "!=": "!="}
    if _is_int(a) and b.op == "attr" and b.args[1] == "ndim":
        a, b, op = b, a, flip.get(op)
    if not (a.op == "attr" and a.args[1] == "ndim" and _is_int(b)) or op not in flip:
        return None
    k = tm.constval(b)
    f = {"<": lambda n: n < k, ">": lambda n: n > k, "<=": lambda n: n <= k, ">=": lambda n: n >= k, "==": lambda n: n == k, "!=": lambda n: n != k}[op]
    return frozenset(n for n in (1, 2, 3) if f(n) == pol)


def complete_cases(prog, rep, name):
    from sa.symex import flat_guards

    from sa import hints as _h
    from sa.symex import Interp as _I
    f0 = prog.func("xfuncs", "xfunc_%s.__init__" % name)
    I0 = _I(prog, _h.param_types_for("xfuncs"), _h.FIELD_TYPES, inline=False, oracle=lambda t: None)
    I0.run(f0)
    where = "xfuncs:xfunc_%s.__init__" % name
    cons = "%s: validity of several columns is reduced to complete rows (all columns valid), a per-row validity is kept" % name
    red = [e for e in I0.events if e.kind == "store_attr" and e["attr"] == "validity" and tm.contains(e["value"], lambda x: x.op == "call" and tm.callee_name(x) in ("numpy.all", "numpy.logical_and.reduce"))]
    if not red:
        allst = [e for e in I0.events if e.kind == "store_attr" and e["attr"] == "validity"]
        rep.add("R-C18-c", where, cons, "UNDECIDED" if allst else "VIOLATED", "no numpy.all(...) reduction stored into self.validity", True,
                None if allst else {"inputs": "validity of shape (rows, 2), ignore_missing=True"})
        return
    for e in red:
        truth = [t for t in (_ndim_guard_truth(c, pol) for c, pol in flat_guards(e.guards)) if t is not None]
        if len(truth) != 1:
            rep.undecided("R-C18-c", where, cons, "the reduction is not guarded by one comparison of .ndim with a literal")
            continue
        rep.check(truth[0] == frozenset((2, 3)), "R-C18-c", where, cons, "reduced exactly when validity.ndim is 2 or more",
                  "the reduction runs for validity.ndim in %s: %s" % (sorted(truth[0]), "a per-row validity is collapsed to one scalar" if 1 in truth[0] else "a per-column validity is not reduced to rows"),
                  witness={"inputs": "%s validity, ignore_missing=True" % ("1-D" if 1 in truth[0] else "(rows, 2)")})


def _eval_axes(expr, ndim):
    """Value of a closed axis expression (literals, range / tuple / list, comparisons, <x>.ndim taken as `ndim`); None
    when the expression uses anything else."""
    import ast

    class Sub(ast.NodeTransformer):
        def visit_Attribute(self, node):
            if node.attr == "ndim":
                return ast.copy_location(ast.Constant(ndim), node)
            return self.generic_visit(node)

    e = ast.fix_missing_locations(Sub().visit(ast.parse(ast.unparse(expr), mode="eval")))
    bound = {n.id for c in ast.walk(e) if isinstance(c, ast.comprehension) for n in ast.walk(c.target) if isinstance(n, ast.Name)}
    allowed = (ast.Expression, ast.GeneratorExp, ast.ListComp, ast.comprehension, ast.Name, ast.Load, ast.Store, ast.Call, ast.Compare, ast.Constant, ast.BinOp, ast.UnaryOp, ast.Tuple, ast.List,
               ast.operator, ast.cmpop, ast.unaryop, ast.BoolOp, ast.boolop, ast.IfExp)
    for n in ast.walk(e):
        if not isinstance(n, allowed):
            return None
        if isinstance(n, ast.Name) and n.id not in bound and n.id not in ("tuple", "range", "list"):
            return None
        if isinstance(n, ast.Call) and not (isinstance(n.func, ast.Name) and n.func.id in ("tuple", "range", "list")):
            return None
    try:
        v = eval(compile(e, "<axis>", "eval"), {"__builtins__": {}, "tuple": tuple, "range": range, "list": list})
    except Exception:
        return None
    if isinstance(v, int):
        v = (v,)
    if not isinstance(v, (tuple, list)) or not all(isinstance(x, int) and -ndim <= x < ndim for x in v):
        return None
    return frozenset(x % ndim for x in v)


def complete_cases_axis(prog, rep, name):
    """The reduction removes the column axis of a (rows, columns) validity and keeps the row axis."""
    import ast
    fi = prog.func("xfuncs", "xfunc_%s.__init__" % name)
    where = "xfuncs:xfunc_%s.__init__" % name
    cons = "%s: the complete-case reduction of a (rows, columns) validity runs over the columns" % name
    calls = [n for n in ast.walk(fi.node) if isinstance(n, ast.Assign) and any(isinstance(t, ast.Attribute) and t.attr == "validity" for t in n.targets)
             and isinstance(n.value, ast.Call) and ast.unparse(n.value.func) in ("numpy.all", "np.all") and n.value.args]
    if len(calls) != 1:
        rep.undecided("R-C18-c", where, cons, "%d assignments self.validity = numpy.all(...)" % len(calls))
        return
    c = calls[0].value
    transposed = isinstance(c.args[0], ast.Attribute) and c.args[0].attr == "T"
    ax = [k.value for k in c.keywords if k.arg == "axis"] or list(c.args[1:2])
    if not ax:
        rep.violated("R-C18-c", where, cons, "numpy.all without an axis: one flag for the whole array", witness={"inputs": "validity of shape (rows, 2), ignore_missing=True"})
        return
    v = _eval_axes(ax[0], 2)
    if v is None:
        rep.undecided("R-C18-c", where, cons, "axis expression not evaluable: %s" % ast.unparse(ax[0])[:80])
        return
    want = frozenset((0,)) if transposed else frozenset((1,))
    rep.check(v == want, "R-C18-c", where, cons, "numpy.all(validity%s, axis=%s) for two dimensions" % (".T" if transposed else "", sorted(v)),
              "for a (rows, columns) validity the reduction runs over axis %s of validity%s: %s" % (sorted(v), ".T" if transposed else "", "one flag per column instead of per row" if v else "nothing is reduced"),
              witness={"inputs": "validity of shape (3, 2), ignore_missing=True"})


def rule_k(prog, rep):
    """Scale invariance of the weighted quantile: every quantity derived from the weights is homogeneous of degree 1 in
    them, so the result cannot change under w -> c*w as long as such a quantity is only ever compared with 0 or with
    another weight-derived quantity.  An ABSOLUTE threshold (isclose / allclose with their default atol, a comparison
    with a non-zero literal) makes cells with small total weight behave differently from the same cells rescaled."""
    import ast
    fi = prog.func("xfuncs", "xfunc_quantile.weighted_quantile")
    NEUTRAL = {"len", "isnan", "isfinite", "argsort", "digitize", "searchsorted", "nonzero", "flatnonzero", "shape", "size", "ndim", "any", "all"}

    def tainted_expr(e, T):
        """e mentions a weight-derived name outside a scale-free wrapper (len, isnan, argsort, digitize, comparisons)"""
        if isinstance(e, ast.Name):
            return e.id in T
        if isinstance(e, ast.Compare):
            return False
        if isinstance(e, ast.Call):
            f = e.func
            nm = f.attr if isinstance(f, ast.Attribute) else (f.id if isinstance(f, ast.Name) else None)
            if nm in NEUTRAL:
                return False
            parts = list(e.args) + [k.value for k in e.keywords] + ([f.value] if isinstance(f, ast.Attribute) else [])
            return any(tainted_expr(x, T) for x in parts)
        if isinstance(e, ast.Attribute):
            return e.attr not in NEUTRAL and tainted_expr(e.value, T)
        if isinstance(e, ast.Subscript):
            return tainted_expr(e.value, T)  # indexing by a weight-derived index does not scale
        if isinstance(e, ast.BinOp) and isinstance(e.op, (ast.Div, ast.FloorDiv)) and tainted_expr(e.left, T) and tainted_expr(e.right, T):
            return False  # a ratio of two weight-derived quantities is scale-free
        return any(tainted_expr(c, T) for c in ast.iter_child_nodes(e) if isinstance(c, ast.expr))

    T = {a.arg for a in fi.node.args.args if a.arg in ("weights", "w")}
    if not T:
        rep.undecided("R-C18-k", fi.fq, "weighted quantile: scale invariance", "no `weights` parameter")
        return
    for _ in range(4):
        for n in ast.walk(fi.node):
            if isinstance(n, ast.Assign) and tainted_expr(n.value, T):
                for t in n.targets:
                    for x in ast.walk(t):
                        if isinstance(x, ast.Name):
                            T.add(x.id)
    n_sites = 0
    bad = []
    for n in ast.walk(fi.node):
        if isinstance(n, ast.Call):
            f = n.func
            nm = f.attr if isinstance(f, ast.Attribute) else (f.id if isinstance(f, ast.Name) else None)
            if nm in ("isclose", "allclose", "adjust_zeros", "assert_allclose") and any(tainted_expr(a, T) for a in n.args):
                n_sites += 1
                atol = [k.value for k in n.keywords if k.arg in ("atol", "abs_tol")]
                if nm == "adjust_zeros" or not (atol and isinstance(atol[0], ast.Constant) and atol[0].value == 0):
                    bad.append((n.lineno, "%s(...) applies an absolute tolerance to %s" % (nm, ast.unparse(n.args[0])[:30])))
        if isinstance(n, ast.Compare) and len(n.ops) == 1 and isinstance(n.ops[0], (ast.Lt, ast.LtE, ast.Gt, ast.GtE, ast.Eq, ast.NotEq)):
            a, b = n.left, n.comparators[0]
            for x, y in ((a, b), (b, a)):
                if tainted_expr(x, T) and isinstance(y, ast.Constant) and isinstance(y.value, (int, float)) and not isinstance(y.value, bool):
                    n_sites += 1
                    if y.value != 0:
                        bad.append((n.lineno, "%s compares a weight-derived quantity with the literal %r" % (ast.unparse(n)[:40], y.value)))
    for line, what in bad:
        rep.violated("R-C18-k", "%s@%d" % (fi.fq, line), "weighted quantile: weight-derived quantities meet no absolute threshold", what + ": cells whose total weight is below it change their result when all weights are rescaled",
                     witness={"inputs": "weights w and w * 2**-40 over the same rows: the second comes back missing / different"})
    if not bad:
        rep.proved("R-C18-k", fi.fq, "weighted quantile: weight-derived quantities meet no absolute threshold", "%d weight-derived names %s, %d comparisons with literals (all with 0)" % (len(T), sorted(T), n_sites))


def rule_e(prog, rep):
    """A missing (NaN) value sorts to the end of the segment; a result assembled only from selected elements
    (a[left], xdiff[left]) never sees it unless the quantile happens to land there."""
    m = AT.model(prog, "xfuncs", "xfunc_quantile", aggr.Config(weights="array", ignore=False))
    fi, I, fr = m.run("weighted_quantile")
    where = fi.fq
    rets = [ev for ev in I.events if ev.kind == "return" and ev.stack and not tm.is_const(ev["value"])]
    rets = [ev for ev in rets if not (ev["value"].op == "call" and tm.callee_name(ev["value"]) == "builtins.float")]
    rets = [ev for ev in rets if tm.contains(ev["value"], lambda x: x.op == "slice1d")]
    if not rets:
        rep.undecided("R-C18-e", where, "weighted quantile kernel", "per-column kernel not found (not called through numpy.apply_along_axis with a local function)")
        return
    for ev in rets:
        v = ev["value"]
        leaf = [x for x in tm.walk(v) if x.op == "slice1d"][0]

        def whole_array_test(t):
            """isnan(<a>) reduced by any()/sum(), or a NaN-propagating reduction of <a>, anywhere in t"""
            for x in tm.walk(t):
                if x.op == "call":
                    nm = tm.callee_name(x) or ""
                    if nm in ("numpy.any", "numpy.sum", ".any", ".sum", "numpy.max", "numpy.min", "numpy.mean") and tm.contains(x, lambda y: y == leaf):
                        inner = x.args[1][0] if x.args[1] else x.args[0].args[0]
                        if nm in ("numpy.any", ".any"):
                            if tm.contains(inner, lambda y: y.op == "call" and tm.callee_name(y) == "numpy.isnan" and tm.contains(y, lambda z: z == leaf)):
                                return True
                        else:
                            return True
                if x.op == "sub" and tm.contains(x.args[0], lambda y: y == leaf) and tm.is_const(x.args[1], -1):
                    # a[-1] of the sorted segment: NaN sorts last
                    if any(c.op == "call" and tm.callee_name(c) == "numpy.isnan" for c in [t]):
                        return True
            return False

        def filtered_before_test(t):
            """the operand of the missing test reaches the column only through a row selection (boolean mask / comparison
            index), so some rows never take part in the test"""
            for x in tm.walk(t):
                if x.op == "call" and tm.callee_name(x) == "numpy.isnan" and x.args[1] and tm.contains(x.args[1][0], lambda y: y == leaf):
                    cur = x.args[1][0]
                    while cur != leaf and cur.op in ("sub", "call", "attr"):
                        if cur.op == "sub":
                            idx = cur.args[1]
                            perm = idx.op == "call" and (tm.callee_name(idx) or "") in (".argsort", "numpy.argsort", "numpy.lexsort")
                            if not perm and tm.contains(idx, lambda y: y.op in ("cmp", "unop") or (y.op == "call" and (tm.callee_name(y) or "") in ("numpy.isnan", "numpy.isfinite", "numpy.nonzero", "numpy.flatnonzero", "numpy.where"))):
                                return idx
                            cur = cur.args[0]
                        elif cur.op == "call" and (tm.callee_name(cur) or "").startswith("."):
                            cur = cur.args[0].args[0]
                        elif cur.op == "attr":
                            cur = cur.args[0]
                        else:
                            break
            return None

        guarded = any(whole_array_test(c) for c, pol in ev.guards)
        sel = None
        for c, pol in ev.guards:
            sel = sel or filtered_before_test(c)
        if sel is not None:
            rep.violated("R-C18-e", "%s@%d" % (where, ev.line), "weighted quantile, propagate: the missing test sees every row of the segment",
                         "rows are selected by %s BEFORE the missing test: a missing fact value on a row that the selection drops (zero or negative weight) no longer makes the cell missing" % tm.show(sel)[:50],
                         witness={"inputs": "quantile of [1, 2, nan] with weights [1, 1, 0], ignore_missing=False -> a number instead of nan (both report formats)"})
            continue
        gather_only = True
        for x in tm.walk(v):
            if x.op == "call" and (tm.callee_name(x) or "") in ("numpy.sum", ".sum", "numpy.nansum", "numpy.mean", "numpy.max", "numpy.min") and tm.contains(x, lambda y: y == leaf):
                gather_only = False
        ok = guarded or not gather_only
        rep.check(ok, "R-C18-e", "%s@%d" % (where, ev.line), "weighted quantile, propagate: result sees every row of the segment",
                  "a whole-array missing test dominates the result" if guarded else "NaN-propagating reduction",
                  "the result is assembled from selected elements only (a[left] + frac * xdiff[left]) and no any-missing test precedes it: a missing value that sorts beyond the quantile is ignored although missing values must propagate",
                  witness={"inputs": "quantile([1, 2, nan], 0.1, weights=[1, 1, 1]) -> 1.0; the unweighted call returns nan"})


REDUCERS = {"numpy.any": "any", ".any": "any", "numpy.all": "all", ".all": "all", "numpy.sum": "sum", ".sum": "sum", "numpy.count_nonzero": "sum",
            "numpy.max": "ext", ".max": "ext", "numpy.min": "ext", ".min": "ext", "numpy.mean": "sum", ".mean": "sum", "numpy.nansum": "sum"}


def _fact_leaf(x):
    """values / validity of the fact argument"""
    if x.op == "unpack" and x.args[0].op == "call" and (tm.callee_name(x.args[0]) or "").endswith("as_separate_validity"):
        src = x.args[0].args[1][0]
        return src.op == "param" and src.args[0] not in ("weights",)
    return False


def _multi_column(t):
    """Does t denote an array that keeps all fact columns of the cell (not one column, not a 1-D slice)?"""
    if not tm.contains(t, _fact_leaf):
        return False
    if tm.contains(t, lambda x: x.op == "slice1d"):
        return False
    # X[:, j] selects one column
    if tm.contains(t, lambda x: x.op == "sub" and x.args[1].op == "tuple" and len(x.args[1].args) == 2 and x.args[1].args[0].op == "slice" and x.args[1].args[1].op != "slice"):
        return False
    return True


def _pred_kind(p):
    """'missing' / 'valid' / None for the operand of an any()/all()"""
    neg = False
    while p.op == "unop" and p.args[0] in ("~", "not"):
        neg = not neg
        p = p.args[1]
    kind = None
    if p.op == "call" and tm.callee_name(p) == "numpy.isnan":
        kind = "missing"
    elif tm.contains(p, lambda x: x.op == "unpack" and x.args[1] == 1 and x.args[0].op == "call" and (tm.callee_name(x.args[0]) or "").endswith("as_separate_validity")) \
            and not tm.contains(p, lambda x: x.op == "call" and tm.callee_name(x) == "numpy.isnan"):
        kind = "valid"
    if kind is None:
        return None
    if neg:
        kind = "valid" if kind == "missing" else "missing"
    return kind


def rule_f(prog, rep):
    from sa.symex import flat_guards
    n = 0
    for cls, label in (("xfunc_quantile", "quantile"), ("xfunc_stddev", "standard deviation")):
        for w in ("none", "array"):
            for ign in (False, True):
                for co in (True, False):
                    cfg = aggr.Config(weights=w, ignore=ign, rma="nan", ndim=2, coords=co, N=not co)
                    m = AT.model(prog, "xfuncs", cls, cfg)
                    fi, I, fr = m.fill
                    seen = set()
                    stores = [e for e in I.events if e.kind == "store_sub"]
                    for e in stores:
                        for c, pol in flat_guards(e.guards):
                            for x in tm.walk(c):
                                if x.op != "call" or (tm.callee_name(x) or "") not in REDUCERS:
                                    continue
                                nm = tm.callee_name(x)
                                operand = x.args[0].args[0] if nm.startswith(".") else (x.args[1][0] if x.args[1] else None)
                                rest = x.args[1] if nm.startswith(".") else x.args[1][1:]
                                if operand is None or tm.kwarg(x, "axis") is not None or rest:
                                    continue  # reduced per column (axis given)
                                if not _multi_column(operand):
                                    continue
                                key = (tm.show(x)[:200], pol, e.line)
                                if key in seen:
                                    continue
                                seen.add(key)
                                n += 1
                                red = REDUCERS[nm]
                                pk = _pred_kind(operand)
                                # polarity of the reduction inside the atom: `not R(...)` flips
                                neg = c.op == "unop" and c.args[0] == "not" and c.args[1] == x
                                direct = c == x or neg
                                eff = (pol != neg) if direct else None
                                where = "xfuncs:%s.fill@%d" % (cls, e.line)
                                cons = "%s, weights %s, %s, %s: store guarded by %s(%s) over all columns" % (label, w, "ignore" if ign else "propagate", "by coordinates" if co else "no coordinates", red, pk or "?")
                                harmless = (red == "all" and pk == "missing") or (red == "any" and pk == "valid")
                                cross = direct and ((red == "any" and pk == "missing" and eff is False) or (red == "all" and pk == "valid" and eff is True))
                                if harmless:
                                    rep.proved("R-C18-f", where, cons, "an all-missing test: every column of the cell is missing when it skips")
                                elif cross:
                                    rep.violated("R-C18-f", where, cons, "the store happens only when NO row of ANY column is missing: one column's missing value blanks the statistic of every other column of the cell",
                                                 witness={"inputs": "two fact columns, a cell whose rows are [[1, nan], [2, 5], [3, 6]]: column 0 has no missing value but its %s comes back missing" % label})
                                else:
                                    rep.undecided("R-C18-f", where, cons, "a whole-cell reduction over several columns guards a per-column store; its meaning is not recognised")
    rep.floor("R-C18-f", 4, n)


def rule_g(prog, rep):
    n = 0
    for w in ("none", "array"):
        for co in (True, False):
            ms = AT.model(prog, "xfuncs", "xfunc_stddev", aggr.Config(weights=w, coords=co, N=not co))
            fi, I, fr = ms.fill
            sq = [e for e in I.events if e.kind == "call" and e["name"] == "numpy.sqrt" and e["args"]]
            for e in sq:
                t = e["args"][0]
                while t.op == "binop" and t.args[0] in ("/", "*"):
                    t = t.args[1]
                while t.op == "call" and (tm.callee_name(t) or "") in (".clip", "numpy.clip", "numpy.maximum", "numpy.abs", "builtins.abs", ".astype"):
                    t = t.args[0].args[0] if tm.callee_name(t).startswith(".") else t.args[1][0]
                n += 1
                where = "%s@%d" % (fi.fq, e.line)
                cons = "stddev (weights %s, %s): numerator of the variance" % (w, "by coordinates" if co else "no coordinates")
                red = t.op == "call" and (tm.callee_name(t) or "") in ("numpy.nansum", "numpy.sum", "numpy.bincount", ".sum")
                if red:
                    data = tm.kwarg(t, "weights") if tm.callee_name(t) == "numpy.bincount" else (t.args[1][0] if t.args[1] else t.args[0].args[0])
                    if data is None and tm.callee_name(t) == "numpy.bincount" and len(t.args[1]) > 1:
                        data = t.args[1][1]
                    dev2 = data is not None and tm.contains(data, lambda x: x.op == "binop" and ((x.args[0] == "**" and tm.is_const(x.args[2], 2) and tm.contains(x.args[1], lambda y: y.op == "binop" and y.args[0] == "-"))
                                                                                             or (x.args[0] == "*" and x.args[1] == x.args[2] and x.args[1].op == "binop" and x.args[1].args[0] == "-")))
                    if dev2:
                        rep.proved("R-C18-g", where, cons, "a reduction of squared deviations (x - mean)**2")
                    else:
                        rep.undecided("R-C18-g", where, cons, "a reduction, but not of a squared difference: %s" % tm.show(data)[:60] if data is not None else "a reduction whose operand is not found")
                elif t.op == "binop" and t.args[0] == "-" and all(tm.contains(x, lambda y: y.op == "call" and (tm.callee_name(y) or "") in ("numpy.nansum", "numpy.sum", "numpy.bincount", ".sum")) for x in t.args[1:]):
                    rep.violated("R-C18-g", where, cons, "computed as a DIFFERENCE of two accumulated sums (sum(w*x*x) - mean*sum(w*x)): for values large relative to their spread the subtraction cancels catastrophically and the result is 0 or wrong by up to 100%",
                                 witness={"inputs": "a cell with values around 1.7e9 (epoch seconds) and a spread of a few tens: the standard deviation comes back 0.0 or far off, and adding a constant to every value changes it"})
                else:
                    rep.undecided("R-C18-g", where, cons, "form not recognised: %s" % tm.show(t)[:70])
    rep.floor("R-C18-g", 4, n)


def rule_j(prog, rep):
    from sa import hints as _h
    from sa.symex import Interp as _I, flat_guards
    fi = prog.func("xfuncs", "xfunc_stddev.fill")
    I = _I(prog, _h.param_types_for("xfuncs"), _h.FIELD_TYPES, inline=False)
    I.run(fi)
    self_t = tm.param("self")
    F = lambda n: T("attr", self_t, n)
    calls = [e for e in I.events if e.kind == "call" and e["method"] in ("_fill_one_no_coordinates", "_fill_one_by_coordinates") and not e.stack]
    where = fi.fq
    if len(calls) != 4:
        rep.undecided("R-C18-j", where, "stddev dispatch", "expected 4 calls of the fill routines (coordinates x one/several columns), found %d" % len(calls))
    for e in calls:
        g = flat_guards(e.guards)
        bycoord = e["method"] == "_fill_one_by_coordinates"
        okc = any(c.op == "cmp" and c.args[0] == "is" and tm.NONE in c.args[1:] and pol == (not bycoord) for c, pol in g)
        nd = [c.args[2].args[1] for c, pol in g if pol and c.op == "cmp" and c.args[0] == "==" and c.args[1].op == "attr" and c.args[1].args[1] == "ndim" and tm.is_const(c.args[2])]
        args = list(e["args"])
        if bycoord:
            coord_ok = len(args) == 6 and args[1] == tm.param(fi.params()[1])
            rows = args[2:]
        else:
            coord_ok = len(args) == 5
            rows = args[1:]
        w = "%s@%d" % (where, e.line)
        names = ("summables", "wsummables", "countables", "validity")
        if nd == [1]:
            ok = coord_ok and okc and len(rows) == 4 and all(r == F(n) for r, n in zip(rows, names)) and not e.loops
            rep.check(ok, "R-C18-j", w, "one column (%s): the four row arrays are handed over whole, in order" % ("by coordinates" if bycoord else "no coordinates"), "", "arguments are %s" % [tm.show(a)[:25] for a in args])
        elif nd == [2]:
            lid = e.loops[-1] if e.loops else None
            it = I.loopinfo[lid].get("iter") if lid else None
            all_cols = it is not None and it.op == "call" and tm.callee_name(it) == "builtins.range" and it.args[1] == (T("sub", T("attr", F("summables"), "shape"), tm.const(1)),)
            col = T("iter", it, lid) if it is not None else None
            sel = T("tuple", T("slice", tm.NONE, tm.NONE, tm.NONE), col) if col is not None else None
            ok_rows = len(rows) == 4 and all(r == T("sub", F(n), sel) for r, n in zip(rows, names))
            reg = args[0]
            ok_reg = reg.op == "comp" and reg.args[1].op == "sub" and reg.args[1].args[1] == sel
            rep.check(coord_ok and okc and all_cols and ok_rows and ok_reg, "R-C18-j", w, "several columns (%s): for every column i, column i of each row array fills column i of each region" % ("by coordinates" if bycoord else "no coordinates"), "",
                      "loop %s; rows %s; regions %s" % (it is not None and tm.show(it)[:40], [tm.show(r)[:30] for r in rows][:2], tm.show(reg)[:40]),
                      witness={"inputs": "a fact with two columns: a column is never filled / filled from another column's rows"})
        else:
            rep.undecided("R-C18-j", w, "stddev dispatch", "call not under `summables.ndim == 1 / 2`")
    # ---- arithmetic of the two routines
    for q in ("xfunc_stddev._fill_one_no_coordinates", "xfunc_stddev._fill_one_by_coordinates"):
        f2 = prog.func("xfuncs", q)
        I0 = _I(prog, _h.param_types_for("xfuncs"), _h.FIELD_TYPES, inline=False)
        I0.run(f2)
        seen_if = set()
        for e in I0.events:
            for v in list(e.d.values()) + [c for c, p in e.guards]:
                if isinstance(v, T):
                    for x in tm.walk(v):
                        if x.op == "ifexp" and x not in seen_if and x.args[0].op == "cmp" and x.args[0].args[0] in ("is", "is not") and tm.NONE in x.args[0].args[1:] \
                                and tm.contains(x.args[0], lambda y: y.op == "attr" and y.args[1] == "weights"):
                            if tm.NONE not in x.args[1:]:
                                continue  # not a `None if ... else weights` choice
                            seen_if.add(x)
                            none_branch, w_branch = (x.args[1], x.args[2]) if x.args[0].args[0] == "is" else (x.args[2], x.args[1])
                            okw = none_branch == tm.NONE and tm.contains(w_branch, lambda y: y.op == "attr" and y.args[1] == "weights")
                            rep.check(okw, "R-C18-j", "%s@%d" % (f2.fq, e.line), "%s: the local weights are None exactly when the object has none" % q.split(".")[-1], "None if self.weights is None else self.weights[...]",
                                      "the choice is inverted: with weights given the unweighted formula is applied (and without weights None is subscripted)",
                                      witness={"inputs": "weighted stddev with ignore_missing=True"})
        for wmode in (False, True):
            def oracle(t, wmode=wmode):
                if t.op == "cmp" and t.args[0] in ("is", "is not") and tm.NONE in t.args[1:] and tm.contains(t, lambda x: x.op == "attr" and x.args[1] == "weights" or (x.op == "param" and x.args[0] == "weights")):
                    return (t.args[0] == "is") != wmode
                return None
            I2 = _I(prog, _h.param_types_for("xfuncs"), _h.FIELD_TYPES, inline=False, oracle=oracle)
            I2.run(f2)
            sq = [e for e in I2.events if e.kind == "call" and e["name"] == "numpy.sqrt" and e["args"]]
            stored = [e for e in I2.events if e.kind == "store_sub" and tm.contains(e["value"], lambda x: x.op == "call" and tm.callee_name(x) == "numpy.sqrt")]
            if not (len(sq) == 1 and len(stored) == 1) and (len(sq) > 1 or _incomplete(I2)):
                # more than one sqrt on the branch: the oracle did not separate the weighted / unweighted paths (the test moved
                # into a helper); or the routine was not read completely
                rep.undecided("R-C18-j", f2.fq, "%s, %s: the standard deviation is computed and stored once" % (q.split(".")[-1], "weighted" if wmode else "unweighted"),
                              "%d sqrt call(s), %d store(s): the weighted / unweighted branches were not separated (%s)" % (len(sq), len(stored), _incomplete(I2) or "the `weights is None` test is not in this function"))
                continue
            rep.check(len(sq) == 1 and len(stored) == 1, "R-C18-j", f2.fq, "%s, %s: the standard deviation is computed and stored once" % (q.split(".")[-1], "weighted" if wmode else "unweighted"), "",
                      "%d sqrt call(s), %d store(s) of a square root: the result region is never written on this branch" % (len(sq), len(stored)), witness={"inputs": "every cell stays NaN"})
            if wmode:
                # the squared deviations are multiplied by the weights before they are summed
                for e in stored:
                    data = [x for x in tm.walk(e["value"]) if x.op == "binop" and x.args[0] == "**" and tm.is_const(x.args[2], 2)]
                    prod = [x for x in tm.walk(e["value"]) if x.op == "binop" and x.args[0] == "*" and any(tm.contains(a, lambda y: y in data) for a in x.args[1:])
                            and any(tm.contains(a, lambda y: (y.op == "attr" and y.args[1] == "weights") or (y.op == "param" and y.args[0] == "weights")) and not tm.contains(a, lambda y: y in data) for a in x.args[1:])]
                    rep.check(bool(data) and bool(prod), "R-C18-j", "%s@%d" % (f2.fq, e.line), "%s, weighted: each squared deviation is multiplied by its weight" % q.split(".")[-1], "(x - mean)**2 * w",
                              "no product of the squared deviations with the weights", witness={"inputs": "weights [1, 3]: the result equals the unweighted one or is garbage"})
            for e in sq:
                t = e["args"][0]
                w = "%s@%d" % (f2.fq, e.line)
                cons = "%s, %s: variance scaling" % (q.split(".")[-1], "weighted" if wmode else "unweighted")
                def nm1(x):
                    return x.op == "binop" and x.args[0] == "-" and tm.is_const(x.args[2], 1)
                if wmode:
                    ok = t.op == "binop" and t.args[0] == "*" and any(y.op == "binop" and y.args[0] == "/" and nm1(y.args[2]) and y.args[1] == y.args[2].args[1] for y in t.args[1:])
                    rep.check(ok, "R-C18-j", w, cons, "(weighted mean square) * N / (N - 1)", "the scaling is %s" % tm.show(t)[:80], witness={"inputs": "two rows with equal weights: the result differs from the unweighted sample standard deviation"})
                else:
                    ok = t.op == "binop" and t.args[0] == "/" and nm1(t.args[2])
                    rep.check(ok, "R-C18-j", w, cons, "sum of squared deviations / (N - 1)", "the divisor is %s" % tm.show(t)[:60], witness={"inputs": "rows 1 and 3: 1.414 expected"})
    # the dimensionless routine needs two rows
    f3 = prog.func("xfuncs", "xfunc_stddev._fill_one_no_coordinates")
    I3 = _I(prog, _h.param_types_for("xfuncs"), _h.FIELD_TYPES, inline=False)
    I3.run(f3)
    st = [e for e in I3.events if e.kind == "store_sub" and tm.contains(e["value"], lambda x: x.op == "call" and tm.callee_name(x) == "numpy.sqrt")]
    okt = bool(st) and all(any(c.op == "cmp" and ((c.args[0] == ">=" and pol and tm.is_const(c.args[2], 2)) or (c.args[0] == ">" and pol and tm.is_const(c.args[2], 1)) or (c.args[0] == "<" and not pol and tm.is_const(c.args[2], 2)))
                               and c.args[1].op == "call" and tm.callee_name(c.args[1]) == "builtins.len" for c, pol in flat_guards(e.guards)) for e in st)
    rep.check(okt, "R-C18-j", f3.fq, "without dimensions the standard deviation is computed exactly when there are at least 2 rows", "len(summables) >= 2", "the threshold is not 2: with exactly two rows the value stays NaN although two valid rows are counted",
              witness={"inputs": "xcube([]).stddev([1.0, 3.0]) -> (nan, True) in the pair format"})


def rule_i(prog, rep):
    from sa import hints as _h
    from sa.symex import Interp as _I, flat_guards
    fi = prog.func("xfuncs", "xfunc_op_base.fill")
    for ign in (False, True):
        def oracle(t, ign=ign):
            if t.op == "attr" and t.args[1] == "ignore_missing":
                return ign
            return None
        I = _I(prog, _h.param_types_for("xfuncs"), _h.FIELD_TYPES, inline=False, oracle=oracle)
        I.run(fi)
        sts = [e for e in I.events if e.kind == "store_sub" and not e.stack]
        vals = [e for e in sts if e["value"].op == "call" and e["value"].args[0].op == "attr" and e["value"].args[0].args[1] == "op"]
        flags = [e for e in sts if tm.is_const(e["value"]) and isinstance(e["value"].args[1], bool)]
        label = "ignoring" if ign else "propagating"
        if len(vals) != 2:
            rep.undecided("R-C18-i", fi.fq, "min/max fill (%s)" % label, "expected 2 value stores (with / without coordinates), found %d" % len(vals))
            continue
        for v in vals:
            w = "%s@%d" % (fi.fq, v.line)
            twin = [f for f in flags if f["index"] == v["index"] and set(map(repr, flat_guards(f.guards))) == set(map(repr, flat_guards(v.guards))) and f["base"] != v["base"]]
            rep.check(len(twin) == 1 and twin[0]["value"] == tm.TRUE, "R-C18-i", w, "min/max (%s): the cell that receives a value is marked valid under the same guards" % label, "",
                      "no `validity[cell] = True` accompanies the value store (found %s)" % [tm.show(f["value"]) for f in twin],
                      witness={"inputs": "any cell with rows: the value is computed but reported missing (validity False), or a missing cell is reported valid"})
            g = flat_guards(v.guards)
            has_len = any(pol and c.op == "call" and tm.callee_name(c) == "builtins.len" for c, pol in g)
            def _is_all_valid(c):
                return c.op == "call" and tm.callee_name(c) in ("numpy.all", ".all") and tm.contains(c, lambda x: x.op == "attr" and x.args[1] == "validity")
            all_valid = any(pol and _is_all_valid(c) for c, pol in g)
            # `validity is None or numpy.all(validity[...])`: the all-valid test with an escape for `no validity to test`
            # (the local is None only on the ignoring path); accepted when every other operand is such an `is None` test
            for c, pol in g:
                if pol and c.op == "bool" and c.args[0] == "or" and any(_is_all_valid(a) for a in c.args[1:]) and \
                        all(_is_all_valid(a) or (a.op == "cmp" and a.args[0] == "is" and tm.NONE in a.args[1:]) for a in c.args[1:]):
                    all_valid = True
            mentions_validity = any(tm.contains(c, lambda x: x.op == "attr" and x.args[1] == "validity") for c, pol in g)
            cons_i = "min/max (%s): computed for a non-empty cell%s" % (label, "" if ign else " whose rows are all valid")
            if has_len and (ign or all_valid):
                rep.proved("R-C18-i", w, cons_i, "")
            elif has_len and not ign and mentions_validity:
                rep.undecided("R-C18-i", w, cons_i, "the store is guarded by a validity test in a form not read here: %s" % [tm.show(c)[:50] for c, p in g if tm.contains(c, lambda x: x.op == "attr" and x.args[1] == "validity")][:2])
            else:
                rep.violated("R-C18-i", w, cons_i, "guards are %s" % [tm.show(c)[:35] for c, p in g if tm.contains(c, lambda x: x.op == "attr" and x.args[1] in ("values", "validity"))][:3],
                             witness={"inputs": "a cell with one missing row under propagation returns a number; an empty cell calls min() on nothing"})
            arg = v["value"].args[1][0] if v["value"].args[1] else None
            masked = arg is not None and tm.contains(arg, lambda x: x.op == "sub" and x.args[0] == T("attr", tm.param("self"), "values") and x.args[1] == T("attr", tm.param("self"), "validity"))
            rep.check(masked == ign, "R-C18-i", w, "min/max (%s): reduces %s" % (label, "the valid rows only" if ign else "all rows of the cell"), "", "the reduced rows are %s" % (arg is not None and tm.show(arg)[:50]),
                      witness={"inputs": "ignore_missing=True with a NaN row: the result is NaN"})


def main(tier):
    rep = core.Report("C18", level="other", rules=RULES, tier=tier,
                      declined="per-cell numerical equality with the textbook statistic (floating-point values)")
    rep.trusted_base = ["CPython ast", "symbolic walker + configuration oracle", "aggregate algebra normaliser", "NumPy: quantile/corrcoef/cov/amin/amax propagate NaN; nanquantile ignores NaN"]
    prog = Program()
    from sa import valhelper
    nvh = 0
    for _m in ('xfuncs',):
        nvh += valhelper.check(prog, rep, _m, 'R-C18-m')
    rep.floor('R-C18-m', 2, nvh)
    rule_a(prog, rep)
    rule_b(prog, rep)
    rule_c(prog, rep)
    rule_d(prog, rep)
    rule_e(prog, rep)
    rule_f(prog, rep)
    rule_g(prog, rep)
    rule_j(prog, rep)
    rule_i(prog, rep)
    rule_k(prog, rep)
    CL = AT.Collector()
    nl = AT.rule_row_layout(prog, CL, "R-C18-l", modules=("xfuncs",), classes=("stddev", "quantile", "corrcoef", "covariance"))
    for rule, status, where, cons, detail, wit in CL.items:
        rep.add(rule, where, cons, status, detail, True, wit)
    rep.floor("R-C18-l", 6, nl)
    import c17
    sub17 = core.Report("C17", level="other", rules=c17.RULES, tier=tier)
    st17 = {"events": 0, "mods": 0, "diagnostic": {}, "exceptions": {}, "regions": 0, "shortcuts": 0}
    k17 = 0
    for fi17, kind17 in c17.build_roots(prog):
        if kind17 == "ctor" and fi17.module in ('xfuncs',) and not fi17.opaque:
            c17.analyse_root(prog, fi17, kind17, sub17, st17)
            k17 += 1
    for o in sub17.obls:
        if o.rule == "R-C17-a":
            rep.add("R-C18-h", o.where, "[%s] %s" % (o.rule, o.construct), o.status, o.detail, True, o.witness)
    rep.floor("R-C18-h", 5, k17)
    return rep.finish()


if __name__ == "__main__":
    core.run_main("C18", main)
