#!/venv/bin/python
"""C11 - INDX files are byte-for-byte the documented layout (spec-table agreement, size identity, numeric kinds)."""
import _indx_common as ic
from sa import core


def main(tier):
    return ic.run(
        "C11", ["R-C11-a", "R-C11-b", "R-C11-c", "R-C11-d", "R-C11-e", "R-C10-a", "R-C10-b", "R-C10-c"], "other",
        "byte comparison against an independent encoder (that is execution); the layout itself is decided structurally",
        tier, {"R-C11-a": 30, "R-C11-b": 2, "R-C11-c": 2, "R-C11-d": 2, "R-C11-e": 3, "R-C10-a": 12, "R-C10-b": 9, "R-C10-c": 8},
        ["host is little-endian (arrays are dumped in native byte order by ndarray.tofile)",
         "word sizes in files are 1, 2, 4 or 8", "calcsize('<B','<H','<L','<Q') = 1,2,4,8"],
        ["CPython ast", "engine P symbolic walker", "INDX0001 specification table in sa/indx.py (transcribed from the format documentation)", "NEP 50 promotion facts in sa/kind.py"],
    )


if __name__ == "__main__":
    core.run_main("C11", main)
