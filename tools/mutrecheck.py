#!/usr/bin/env python3
"""Regression view of the mutation sweeps (not part of any check): take the report of an earlier tools/mutsweep.py run
(--out report.json), and for every mutant in it that PASSED the repository's tests (caught / undecided / SURVIVED at the
time) run today's twenty quick checks again - the tests are not repeated.  Mutants are matched by their description
(function@line + operator), so a report survives edits elsewhere in the file.  Prints every transition; a mutant that
was `caught` and is not any more is a detection regression to be explained.

usage: tools/mutrecheck.py <file.py> <old report.json> [--gen2] [--out new.json]"""
import ast
import json
import os
import shutil
import sys
from concurrent.futures import ThreadPoolExecutor

HERE = os.path.dirname(os.path.dirname(os.path.abspath(__file__)))
sys.path.insert(0, os.path.join(HERE, "tools"))
import mutsweep as ms  # noqa: E402


def main():
    fname, old = sys.argv[1], json.load(open(sys.argv[2]))
    ms.Mutator.gen2 = "--gen2" in sys.argv
    out = sys.argv[sys.argv.index("--out") + 1] if "--out" in sys.argv else None
    src = open(os.path.join(ms.REPO, "src", "catii", fname)).read()
    m = ms.Mutator(-1)
    m.visit(ast.parse(src))
    by_desc = {}
    for k in range(m.count):
        mm = ms.Mutator(k)
        mm.visit(ast.parse(src))
        if mm.desc is not None:
            by_desc.setdefault(mm.desc, k)
    props = ["C%02d" % i for i in range(1, 21)]
    if fname not in ("iindexes.py",):
        props = [p for p in props if p not in ("C08", "C09")]
    todo = [r for r in old if r["status"] in ("caught", "undecided", "SURVIVED")]
    gone = [r for r in todo if r["desc"] not in by_desc]

    def one(r):
        k = by_desc[r["desc"]]
        tree = ast.parse(src)
        mu = ms.Mutator(k)
        new = mu.visit(tree)
        ast.fix_missing_locations(new)
        d = ms.make_scratch(fname, ast.unparse(new))
        try:
            fired, und = ms.run_checks(d, props)
        finally:
            shutil.rmtree(d, ignore_errors=True)
        return {"k": k, "desc": r["desc"], "was": r["status"], "was_fired": r.get("fired", []), "status": "caught" if fired else ("undecided" if und else "SURVIVED"), "fired": fired, "undecided": und}

    res = []
    with ThreadPoolExecutor(int(os.environ.get("JOBS", "10"))) as ex:
        for r in ex.map(one, [r for r in todo if r["desc"] in by_desc]):
            res.append(r)
            if r["was"] != r["status"]:
                print("%-9s -> %-9s %s  %s" % (r["was"], r["status"], r["desc"], (r["was_fired"] if r["was"] == "caught" else r["fired"] or r["undecided"])), flush=True)
    tally = {}
    for r in res:
        key = "%s -> %s" % (r["was"], r["status"])
        tally[key] = tally.get(key, 0) + 1
    print("tally:", tally, "| not found today:", len(gone))
    if out:
        json.dump(res, open(out, "w"), indent=1)


if __name__ == "__main__":
    main()
