#!/usr/bin/env python3
"""Keep a confirmed sub-agent change as /verif/seeded/<id>/ (patch.diff, demo.py, notes.md, meta.json).

usage: tools/keep_seed.py <id> <outdir-of-the-agent> <confirm-report.json> --breaks "..." --needs "..."

Runs tools/try_patch.py once more so that meta.json records which checks fire on the change today.
"""
import argparse
import json
import os
import re
import shutil
import subprocess
import sys

HERE = os.path.dirname(os.path.dirname(os.path.abspath(__file__)))


def main():
    ap = argparse.ArgumentParser()
    ap.add_argument("id")
    ap.add_argument("outdir")
    ap.add_argument("report")
    ap.add_argument("--breaks", required=True)
    ap.add_argument("--needs", required=True)
    ap.add_argument("--property", default=None)
    ap.add_argument("--origin-extra", default="")
    a = ap.parse_args()
    txt = open(a.report).read().rsplit("done", 1)[0]
    rep = json.loads(txt)
    # benchmark pass<->xfail flips are wall-clock noise (see tools/confirm_seed.py)
    oc = rep.get("suite", {}).get("outcome_changes", {})
    timing = {k: v for k, v in oc.items() if k.startswith("benchmarks.") and set(v) <= {"pass", "skip"}}
    real = {k: v for k, v in oc.items() if k not in timing}
    confirmed = not real and rep["demo"]["base_exit"] == 0 and rep["demo"]["patched_exit"] != 0 and rep.get("applies")
    if not confirmed:
        print("NOT CONFIRMED", real, rep.get("demo"), rep.get("error"))
        return 1
    dst = os.path.join(HERE, "seeded", a.id)
    os.makedirs(dst, exist_ok=True)
    for f in ("patch.diff", "demo.py", "notes.md"):
        src = os.path.join(a.outdir, f)
        if os.path.exists(src):
            shutil.copy(src, os.path.join(dst, f))
    p = subprocess.run([sys.executable, os.path.join(HERE, "tools", "try_patch.py"), os.path.join(dst, "patch.diff")], capture_output=True, text=True)
    out = p.stdout + p.stderr
    fired = []
    m = re.search(r"^FIRED: (.*)$", out, re.M)
    if m and m.group(1).strip() != "none":
        fired = m.group(1).split()
    rules = sorted(set(re.findall(r"VIOLATED (R-C\d\d-[\w-]+)", out)))
    undecided = sorted(set(re.findall(r"^(C\d\d) undecided", out, re.M)))
    meta = {
        "id": a.id,
        "property": a.property or a.id[:3],
        "breaks": a.breaks,
        "needs_to_manifest": a.needs,
        "origin": "fresh sub-agent given only the property text and a scratch worktree of /repo at %s; nothing from /verif" % rep["base_commit"] + ((" " + a.origin_extra) if a.origin_extra else ""),
        "confirmed_by": {
            "tool": "tools/confirm_seed.py (two scratch worktrees under /tmp, removed afterwards)",
            "base_commit": rep["base_commit"],
            "patch_applies": rep.get("applies"),
            "extension_rebuilt": rep.get("patched_build"),
            "suite": {"tests": rep["suite"]["tests"], "outcome_changes": real, "benchmark_timing_flips_ignored": sorted(timing) + rep.get("timing_flips_ignored", [])},
            "demo_exit_unpatched": rep["demo"]["base_exit"],
            "demo_exit_patched": rep["demo"]["patched_exit"],
            "demo_message": rep["demo"].get("patched_tail", [])[-1:] if rep["demo"].get("patched_tail") else [],
        },
        "static_checks": {"tool": "tools/try_patch.py (git apply in /repo, quick checks, git checkout -- .)", "fired": fired, "rules": rules, "undecided": undecided},
    }
    json.dump(meta, open(os.path.join(dst, "meta.json"), "w"), indent=1)
    print(a.id, "kept; fired:", fired, rules, "undecided:", undecided)
    return 0


if __name__ == "__main__":
    sys.exit(main())
