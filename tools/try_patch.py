#!/usr/bin/env python3
"""Apply a seeded patch to /repo, run the quick checks (all or the given ones) with evidence
redirected to a scratch dir, print one line per check, and undo the patch straight afterwards."""
import os
import subprocess
import sys
import tempfile
import shutil
from concurrent.futures import ThreadPoolExecutor

VERIF = os.path.dirname(os.path.dirname(os.path.abspath(__file__)))


def main():
    patch = os.path.abspath(sys.argv[1])
    props = [a.upper() for a in sys.argv[2:]] or ["C%02d" % i for i in range(1, 21)]
    # by default the patch is applied to a SCRATCH COPY of /repo's sources (CATII_REPO points the checks at it), so that
    # several tools can run at once; TRY_IN_REPO=1 applies it to /repo itself (git apply ... git checkout -- .)
    in_repo = bool(os.environ.get("TRY_IN_REPO"))
    copy = None
    if in_repo:
        st = subprocess.run(["git", "-C", "/repo", "status", "--porcelain", "--untracked-files=no"], capture_output=True, text=True).stdout.strip()
        if st:
            print("REFUSING: /repo has uncommitted changes:\n" + st)
            return 2
        r = subprocess.run(["git", "-C", "/repo", "apply", patch], capture_output=True, text=True)
        if r.returncode:
            print("patch does not apply:", r.stderr[:500])
            return 2
    else:
        sys.path.insert(0, VERIF)
        from selftest.mutate import make_copy
        copy = make_copy([])
        r = subprocess.run(["patch", "-p1", "-s", "-d", copy, "-i", patch], capture_output=True, text=True)
        if r.returncode:
            print("patch does not apply:", (r.stdout + r.stderr)[:500])
            shutil.rmtree(copy, ignore_errors=True)
            return 2
    scratch = tempfile.mkdtemp(prefix="catii-try-")
    try:
        env = dict(os.environ, VERIF_EVIDENCE_DIR=scratch)
        if copy is not None:
            env["CATII_REPO"] = copy
            env["VERIF_NO_SELFTEST"] = "1"

        def run(p):
            q = subprocess.run(["/venv/bin/python", os.path.join(VERIF, "checks", p.lower() + ".py"), "--tier", "quick"], capture_output=True, text=True, env=env, cwd=VERIF, timeout=600)
            return p, q.returncode, q.stdout + q.stderr

        with ThreadPoolExecutor(8) as ex:
            res = list(ex.map(run, props))
        fired = []
        for p, rc, out in res:
            lines = [l for l in out.splitlines() if l.startswith(("  VIOLATED", "ANALYSIS-INCOMPLETE", "ANALYSIS-ERROR"))]
            tag = {0: "silent", 1: "VIOLATION", 2: "undecided/error"}.get(rc, str(rc))
            print("%s %-16s %s" % (p, tag, (lines[0][:230] if lines else "")))
            for l in lines[1:4]:
                print(" " * 21 + l[:230])
            if rc == 1:
                fired.append(p)
        print("FIRED:", " ".join(fired) or "none")
    finally:
        if in_repo:
            subprocess.run(["git", "-C", "/repo", "checkout", "--", "."])
        if copy is not None:
            shutil.rmtree(copy, ignore_errors=True)
        shutil.rmtree(scratch, ignore_errors=True)
    return 0


if __name__ == "__main__":
    sys.exit(main())
