#!/usr/bin/env python3
"""Mutation sweep of the CHECKER over the Cython kernels (not part of any check): text-level mutants of
src/catii/set_operations.pyx, each built in its own scratch copy of the repository (cythonize + build_ext), dropped
when the build fails or the repository's own tests kill it (a crash of the test process counts as killed), and the
kernel-related quick checks run on the rest.  SURVIVORS (pass the tests, no check reports them) are listed for triage.

usage: tools/mutsweep_pyx.py [--only <function-name-substring>] [--max N] [--out report.json] [--props C08,C09,...]

Scratch copies live under $TMPDIR and are removed at once."""
import json
import os
import re
import shutil
import subprocess
import sys
import tempfile
from concurrent.futures import ThreadPoolExecutor

HERE = os.path.dirname(os.path.dirname(os.path.abspath(__file__)))
REPO = "/repo"
PY = "/venv/bin/python"
PYX = "src/catii/set_operations.pyx"

SWAPS = [
    (r"(?<![<>=!])<=(?!=)", "<"), (r"(?<![<>=!])>=(?!=)", ">"), (r"(?<![<>=!\-])<(?![<=])", "<="), (r"(?<![<>=!\-])>(?![>=])", ">="),
    (r"==", "!="), (r"!=", "=="), (r"\+= 1\b", "+= 2"), (r"\+= 1\b", "+= 0"), (r"\+ 1\b", "+ 2"), (r"\+ 1\b", "+ 0"), (r"- 1\b", "- 0"), (r"- 1\b", "- 2"),
    (r"\band\b", "or"), (r"\bor\b", "and"), (r"\bnot ", ""), (r"= 0$", "= 1"), (r"\b0\b", "1"), (r"\bmin\(", "max("), (r"\bmax\(", "min("),
    (r"\bleft_", "right_"), (r"\bright_", "left_"), (r" \+ ", " - "), (r" - ", " + "), (r" \* ", " + "),
]


def mutants(src):
    lines = src.split("\n")
    func = "<module>"
    in_doc = False
    out = []
    for i, line in enumerate(lines):
        m = re.match(r"\s*(?:cp?def|def)\s+(?:[\w\[\]:\s]+?\s)?(\w+)\(", line)
        if m and not line.startswith(" "):
            func = m.group(1)
        st = line.strip()
        if st.count('"""') == 1:
            in_doc = not in_doc
            continue
        if in_doc or not st or st.startswith(("#", '"""', "@", "cimport", "import", "ctypedef")):
            continue
        code = line.split("#")[0].rstrip()
        if not code.strip():
            continue
        seen = set()
        for pat, rep in SWAPS:
            for k, mm in enumerate(re.finditer(pat, code)):
                new = code[:mm.start()] + rep + code[mm.end():]
                if new in seen or new == code:
                    continue
                seen.add(new)
                out.append((func, i + 1, "%r -> %r (#%d)" % (mm.group(0), rep, k), "\n".join(lines[:i] + [new] + lines[i + 1:])))
        # delete simple statements (stores, increments, break / continue), keeping the block non-empty
        if re.match(r"\s+(break|continue)$", code) or re.match(r"\s+[\w\.\[\]\s\+\-\*:,]+\s*(\+=|-=|=)\s*[^=].*$", code) and not code.strip().startswith(("cdef", "return", "if", "elif", "while", "for")):
            ind = re.match(r"\s*", code).group(0)
            out.append((func, i + 1, "delete %r" % code.strip()[:50], "\n".join(lines[:i] + [ind + "pass"] + lines[i + 1:])))
    return out


def make_scratch(text):
    d = tempfile.mkdtemp(prefix="catii-mutx-")
    for fn in ("setup.py", "README.md", "pyproject.toml"):
        shutil.copy(os.path.join(REPO, fn), os.path.join(d, fn))
    dst = os.path.join(d, "src", "catii")
    os.makedirs(dst)
    src = os.path.join(REPO, "src", "catii")
    for fn in os.listdir(src):
        if fn.endswith((".py", ".pyx")):
            shutil.copy(os.path.join(src, fn), os.path.join(dst, fn))
    with open(os.path.join(d, PYX), "w") as f:
        f.write(text)
    return d


def build(d):
    p = subprocess.run("CYTHONIZE_SETUP_PY=1 %s setup.py build_ext --inplace >build.log 2>&1; rc=$?; rm -rf build; exit $rc" % PY, shell=True, cwd=d, timeout=600)
    return p.returncode == 0 and any(f.endswith(".so") for f in os.listdir(os.path.join(d, "src", "catii")))


def run_tests(d):
    env = dict(os.environ, PYTHONPATH=os.path.join(d, "src"))
    try:
        p = subprocess.run([PY, "-m", "pytest", "-q", "-p", "no:cacheprovider", "--timeout=120", "tests", "-q", "--no-header", "-rf"], cwd=REPO, env=env, capture_output=True, text=True, timeout=600)
    except subprocess.TimeoutExpired:
        return None
    if p.returncode not in (0, 1):
        return None  # crash
    return sorted(l.split(" ")[1].rstrip() for l in p.stdout.splitlines() if l.startswith("FAILED "))


def run_checks(d, props):
    env = dict(os.environ, CATII_REPO=d, VERIF_EVIDENCE_DIR=os.path.join(d, "evidence"), VERIF_NO_SELFTEST="1")
    fired, und = [], []
    for p in props:
        try:
            r = subprocess.run([PY, os.path.join(HERE, "checks", p.lower() + ".py"), "--tier", "quick"], capture_output=True, text=True, env=env, cwd=HERE, timeout=600)
            rc = r.returncode
        except subprocess.TimeoutExpired:
            rc = 2
        if rc == 1:
            fired.append(p)
        elif rc != 0:
            und.append(p)
    return fired, und


def one(args):
    k, func, line, desc, text, base, props = args
    d = make_scratch(text)
    tag = "%s@%d %s" % (func, line, desc)
    try:
        if not build(d):
            return {"k": k, "desc": tag, "status": "build-failed"}
        failed = run_tests(d)
        if failed is None or failed != base:
            return {"k": k, "desc": tag, "status": "killed-by-tests"}
        fired, und = run_checks(d, props)
        return {"k": k, "desc": tag, "status": "caught" if fired else ("undecided" if und else "SURVIVED"), "fired": fired, "undecided": und}
    finally:
        shutil.rmtree(d, ignore_errors=True)


def main():
    only = sys.argv[sys.argv.index("--only") + 1] if "--only" in sys.argv else None
    mx = int(sys.argv[sys.argv.index("--max") + 1]) if "--max" in sys.argv else 100000
    out = sys.argv[sys.argv.index("--out") + 1] if "--out" in sys.argv else None
    props = sys.argv[sys.argv.index("--props") + 1].split(",") if "--props" in sys.argv else ["C07", "C08", "C09", "C16"]
    src = open(os.path.join(REPO, PYX)).read()
    ms = [m for m in mutants(src) if not only or only in m[0]][:mx]
    env = dict(os.environ, PYTHONPATH=os.path.join(REPO, "src"))
    p = subprocess.run([PY, "-m", "pytest", "-q", "-p", "no:cacheprovider", "--timeout=120", "tests", "-q", "--no-header", "-rf"], cwd=REPO, env=env, capture_output=True, text=True, timeout=900)
    base = sorted(l.split(" ")[1].rstrip() for l in p.stdout.splitlines() if l.startswith("FAILED "))
    print("%d mutants; baseline failing tests: %d; checks %s" % (len(ms), len(base), props))
    res = []
    with ThreadPoolExecutor(16) as ex:
        for r in ex.map(one, [(k, f, l, dsc, t, base, props) for k, (f, l, dsc, t) in enumerate(ms)]):
            res.append(r)
            if r["status"] in ("SURVIVED", "undecided"):
                print("%-9s %s %s" % (r["status"], r["desc"], r.get("undecided") or ""), flush=True)
    tally = {}
    for r in res:
        tally[r["status"]] = tally.get(r["status"], 0) + 1
    print("tally:", tally)
    if out:
        json.dump(res, open(out, "w"), indent=1)


if __name__ == "__main__":
    main()
