#!/usr/bin/env python3
"""False-alarm sweep over the Cython kernels (not part of any check): behaviour-preserving text rewrites of
src/catii/set_operations.pyx, per function; each is built, must keep the repository's tests unchanged, and must leave
the kernel-related quick checks NON-VIOLATED (UNDECIDED is listed separately).

usage: tools/refsweep_pyx.py [--props C07,C08,C09,C16,C17,C02]

rewrites: rename   every cdef local of the function gets the suffix _r (parameters keep their names: callers use keywords)
          flipcmp  `A op B` in if / elif / while tests with simple operands -> `B op' A`
          augassign `x += k` -> `x = x + k` (scalars and memoryview cells)
          whiletrue `while 1:` -> `while True:`
          nested   `if a and b:` (no else) -> nested ifs; `if a or b: continue` left alone"""
import os
import re
import shutil
import subprocess
import sys
from concurrent.futures import ThreadPoolExecutor

HERE = os.path.dirname(os.path.dirname(os.path.abspath(__file__)))
sys.path.insert(0, os.path.join(HERE, "tools"))
import mutsweep_pyx as MP  # noqa: E402

FLIP = {"<": ">", ">": "<", "<=": ">=", ">=": "<=", "==": "==", "!=": "!="}


def functions(lines):
    out = []
    i = 0
    while i < len(lines):
        if re.match(r"(def|cpdef|cdef)\s+.*\(", lines[i]) and not lines[i].startswith(" "):
            j = i + 1
            while j < len(lines) and (lines[j].startswith((" ", "\t")) or not lines[j].strip()):
                j += 1
            name = re.match(r"(?:def|cpdef|cdef)\s+(?:[\w\[\]:\s]+?\s)?(\w+)\(", lines[i]).group(1)
            out.append((name, i, j))
            i = j
        else:
            i += 1
    return out


def code_of(line):
    return line.split("#")[0]


def rename(block):
    text = "\n".join(block)
    names = set()
    for m in re.finditer(r"cdef\s+(?:const\s+)?[\w\[\]:,\s]*?\s+((?:\w+(?:\s*=\s*[^,\n]+)?\s*,\s*)*\w+(?:\s*=\s*[^,\n]+)?)\s*$", text, re.M):
        for part in m.group(1).split(","):
            names.add(part.split("=")[0].strip())
    names = {n for n in names if re.match(r"^[A-Za-z_]\w*$", n) and n not in ("const", "uint32", "int", "long", "list", "True", "False", "None")}
    for n in sorted(names, key=len, reverse=True):
        text = re.sub(r"(?<![\w.])%s\b(?!\s*=(?!=)\s*[^=].*\)\s*$)" % re.escape(n), n + "_r", text)
    return text.split("\n"), sorted(names)


def flipcmp(block):
    out = []
    for line in block:
        c = code_of(line)
        m = re.match(r"^(\s*(?:if|elif|while)\s+)([\w\.\[\]]+(?:\s*[-+]\s*\d+)?)\s*(<=|>=|==|!=|<|>)\s*([\w\.\[\]]+(?:\s*[-+]\s*\d+)?)\s*:\s*$", c)
        if m:
            out.append("%s%s %s %s:" % (m.group(1), m.group(4), FLIP[m.group(3)], m.group(2)))
        else:
            out.append(line)
    return out


def augassign(block):
    out = []
    for line in block:
        c = code_of(line)
        m = re.match(r"^(\s*)([\w\.\[\]]+)\s*\+=\s*(\w+)\s*$", c)
        if m:
            out.append("%s%s = %s + %s" % (m.group(1), m.group(2), m.group(2), m.group(3)))
        else:
            out.append(line)
    return out


def whiletrue(block):
    return [re.sub(r"^(\s*)while 1:\s*$", r"\1while True:", l) for l in block]


def nested(block):
    out = []
    i = 0
    while i < len(block):
        line = block[i]
        c = code_of(line).rstrip()
        m = re.match(r"^(\s*)if\s+(.+?)\s+and\s+(.+?):$", c)
        if m and " or " not in c and " and " not in m.group(3):
            ind = m.group(1)
            # body: following lines with deeper indentation; no else/elif at the same level
            j = i + 1
            while j < len(block) and (not block[j].strip() or len(block[j]) - len(block[j].lstrip()) > len(ind)):
                j += 1
            nxt = block[j].strip() if j < len(block) else ""
            if not nxt.startswith(("else", "elif")):
                out.append("%sif %s:" % (ind, m.group(2)))
                out.append("%s    if %s:" % (ind, m.group(3)))
                for b in block[i + 1:j]:
                    out.append(("    " + b) if b.strip() else b)
                i = j
                continue
        out.append(line)
        i += 1
    return out


KINDS = {"rename": lambda b: rename(b)[0], "flipcmp": flipcmp, "augassign": augassign, "whiletrue": whiletrue, "nested": nested}


def one(args):
    kind, fname, text, base, props = args
    d = MP.make_scratch(text)
    try:
        if not MP.build(d):
            return (kind, fname, "build-failed (rewrite is not valid Cython)", [], [])
        failed = MP.run_tests(d)
        if failed is None or failed != base:
            return (kind, fname, "NOT-BENIGN (tests change)", [], [])
        fired, und = MP.run_checks(d, props)
        return (kind, fname, "FALSE-ALARM" if fired else ("undecided" if und else "ok"), fired, und)
    finally:
        shutil.rmtree(d, ignore_errors=True)


def main():
    props = sys.argv[sys.argv.index("--props") + 1].split(",") if "--props" in sys.argv else ["C02", "C07", "C08", "C09", "C14", "C16", "C17"]
    src = open(os.path.join(MP.REPO, MP.PYX)).read()
    lines = src.split("\n")
    env = dict(os.environ, PYTHONPATH=os.path.join(MP.REPO, "src"))
    p = subprocess.run([MP.PY, "-m", "pytest", "-q", "-p", "no:cacheprovider", "--timeout=120", "tests", "-q", "--no-header", "-rf"], cwd=MP.REPO, env=env, capture_output=True, text=True, timeout=900)
    base = sorted(l.split(" ")[1].rstrip() for l in p.stdout.splitlines() if l.startswith("FAILED "))
    jobs = []
    for name, i, j in functions(lines):
        for kind, fn in KINDS.items():
            nb = fn(lines[i:j])
            if nb != lines[i:j]:
                jobs.append((kind, name, "\n".join(lines[:i] + nb + lines[j:]), base, props))
    print("%d rewrites; checks %s" % (len(jobs), props))
    tally = {}
    with ThreadPoolExecutor(16) as ex:
        for kind, fname, status, fired, und in ex.map(one, jobs):
            tally[status.split(" ")[0]] = tally.get(status.split(" ")[0], 0) + 1
            if status != "ok":
                print("%-14s %-10s %-28s %s %s" % (status[:40], kind, fname, fired or "", und or ""), flush=True)
    print("tally:", tally)


if __name__ == "__main__":
    main()
