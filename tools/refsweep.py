#!/usr/bin/env python3
"""False-alarm sweep of the CHECKER (not part of any check): behaviour-preserving rewrites of one source file of
/repo/src/catii, applied function by function; every rewrite must keep the repository's tests unchanged (sanity that
the rewrite really is benign) and must leave all twenty quick checks NON-VIOLATED.  A check that reports VIOLATED on a
rewrite is a false alarm to correct; UNDECIDED (exit 2) is listed separately: an unrecognised idiom, not an alarm.

usage: tools/refsweep.py <file.py> [--kinds k1,k2,...] [--only <function-name-substring>] [--whole]

kinds: unparse   the whole file through ast.unparse (layout, quotes, parentheses, line numbers)
       augassign `x += e`  ->  `x = x + e`   (names only; array targets keep their in-place meaning)
       invert    `if c: A else: B`  ->  `if not c: B else: A`
       flipcmp   `a == b` / `a != b`  ->  `b == a` / `b != a`;  `a < b` -> `b > a`, ...
       rename    every local variable v of a function  ->  v_r  (parameters, globals, nonlocals, attributes untouched)
       temp      `return <expr>`  ->  `_result = <expr>; return _result`
       demorgan  `not (a and b)` <-> `(not a) or (not b)` is NOT applied (changes short-circuit structure): instead
                 `a and b` in an if-test  ->  nested ifs when there is no else
With --whole each kind is applied to the whole file at once (fast); without it, per top-level function / method."""
import ast
import copy
import os
import shutil
import subprocess
import sys
import tempfile
from concurrent.futures import ThreadPoolExecutor

HERE = os.path.dirname(os.path.dirname(os.path.abspath(__file__)))
sys.path.insert(0, os.path.join(HERE, "tools"))
import mutsweep as MS  # noqa: E402

FLIP = {ast.Lt: ast.Gt, ast.Gt: ast.Lt, ast.LtE: ast.GtE, ast.GtE: ast.LtE, ast.Eq: ast.Eq, ast.NotEq: ast.NotEq}


class AugAssign(ast.NodeTransformer):
    def visit_AugAssign(self, node):
        self.generic_visit(node)
        if isinstance(node.target, ast.Name):
            return ast.copy_location(ast.Assign([ast.Name(node.target.id, ast.Store())], ast.BinOp(ast.Name(node.target.id, ast.Load()), node.op, node.value)), node)
        return node


class Invert(ast.NodeTransformer):
    def visit_If(self, node):
        self.generic_visit(node)
        if node.orelse and not (len(node.orelse) == 1 and isinstance(node.orelse[0], ast.If)):
            t = node.test
            nt = t.operand if isinstance(t, ast.UnaryOp) and isinstance(t.op, ast.Not) else ast.UnaryOp(ast.Not(), t)
            return ast.copy_location(ast.If(nt, node.orelse, node.body), node)
        return node


class FlipCmp(ast.NodeTransformer):
    def visit_Compare(self, node):
        self.generic_visit(node)
        if len(node.ops) == 1 and type(node.ops[0]) in FLIP:
            return ast.copy_location(ast.Compare(node.comparators[0], [FLIP[type(node.ops[0])]()], [node.left]), node)
        return node


class Temp(ast.NodeTransformer):
    def visit_Return(self, node):
        if node.value is not None and not isinstance(node.value, (ast.Name, ast.Constant)):
            return [ast.copy_location(ast.Assign([ast.Name("_result", ast.Store())], node.value), node), ast.copy_location(ast.Return(ast.Name("_result", ast.Load())), node)]
        return node


class NestIf(ast.NodeTransformer):
    def visit_If(self, node):
        self.generic_visit(node)
        if not node.orelse and isinstance(node.test, ast.BoolOp) and isinstance(node.test.op, ast.And) and len(node.test.values) == 2:
            inner = ast.If(node.test.values[1], node.body, [])
            return ast.copy_location(ast.If(node.test.values[0], [inner], []), node)
        return node


def rename_locals(fn):
    """Rename every plain local of the outermost function `fn` (and its uses in nested functions)."""
    params = set()
    declared = set()
    for n in ast.walk(fn):
        if isinstance(n, (ast.FunctionDef, ast.Lambda)):
            a = n.args
            for x in a.args + a.kwonlyargs + getattr(a, "posonlyargs", []):
                params.add(x.arg)
            if a.vararg:
                params.add(a.vararg.arg)
            if a.kwarg:
                params.add(a.kwarg.arg)
        if isinstance(n, (ast.Global, ast.Nonlocal)):
            declared.update(n.names)
        if isinstance(n, ast.FunctionDef) and n is not fn:
            params.add(n.name)  # nested function names stay (they appear in qualified names the reports use)
    stores = {n.id for n in ast.walk(fn) if isinstance(n, ast.Name) and isinstance(n.ctx, (ast.Store, ast.Del))}
    for n in ast.walk(fn):
        if isinstance(n, ast.ExceptHandler) and n.name:
            params.add(n.name)
        if isinstance(n, (ast.Import, ast.ImportFrom)):
            for al in n.names:
                params.add((al.asname or al.name).split(".")[0])
    names = {s for s in stores if s not in params and s not in declared and not s.startswith("__")}
    for n in ast.walk(fn):
        if isinstance(n, ast.Name) and n.id in names:
            n.id = n.id + "_r"
    return fn


class LenCmp(ast.NodeTransformer):
    """`if len(x):` -> `if len(x) > 0:`;  `if not len(x):` -> `if len(x) == 0:`  (tests of if / while / conditional expressions)"""

    def _fix(self, t):
        def is_len(e):
            return isinstance(e, ast.Call) and isinstance(e.func, ast.Name) and e.func.id == "len" and len(e.args) == 1
        if is_len(t):
            return ast.Compare(t, [ast.Gt()], [ast.Constant(0)])
        if isinstance(t, ast.UnaryOp) and isinstance(t.op, ast.Not) and is_len(t.operand):
            return ast.Compare(t.operand, [ast.Eq()], [ast.Constant(0)])
        if isinstance(t, ast.BoolOp):
            t.values = [self._fix(v) for v in t.values]
        return t

    def visit_If(self, node):
        self.generic_visit(node)
        node.test = self._fix(node.test)
        return node

    def visit_IfExp(self, node):
        self.generic_visit(node)
        node.test = self._fix(node.test)
        return node


class CompLoop(ast.NodeTransformer):
    """`name = [elt for t in it if c]`  ->  `name = []` + explicit loop with append (single generator only)"""

    def visit_Assign(self, node):
        v = node.value
        if len(node.targets) == 1 and isinstance(node.targets[0], ast.Name) and isinstance(v, ast.ListComp) and len(v.generators) == 1 and not v.generators[0].is_async:
            g = v.generators[0]
            name = node.targets[0].id
            if any(isinstance(x, ast.Name) and x.id == name for x in ast.walk(v)):
                return node
            app = ast.Expr(ast.Call(ast.Attribute(ast.Name(name, ast.Load()), "append", ast.Load()), [v.elt], []))
            body = [app]
            for c in reversed(g.ifs):
                body = [ast.If(c, body, [])]
            loop = ast.For(g.target, g.iter, body, [], None)
            return [ast.copy_location(ast.Assign([ast.Name(name, ast.Store())], ast.List([], ast.Load())), node), ast.copy_location(loop, node)]
        return node


class AliasSelf(ast.NodeTransformer):
    """`self.X` read several times in a method that never stores it  ->  `X_ = self.X` at the top, reads through X_"""

    def visit_FunctionDef(self, node):
        if not node.args.args or node.args.args[0].arg != "self" or any(isinstance(n, (ast.FunctionDef, ast.Lambda)) for b in node.body for n in ast.walk(b)):
            return node
        stored = {n.attr for n in ast.walk(node) if isinstance(n, ast.Attribute) and isinstance(n.ctx, (ast.Store, ast.Del)) and isinstance(n.value, ast.Name) and n.value.id == "self"}
        called = {n.func.attr for n in ast.walk(node) if isinstance(n, ast.Call) and isinstance(n.func, ast.Attribute) and isinstance(n.func.value, ast.Name) and n.func.value.id == "self"}
        # in-place mutation through self.X (subscript stores, method calls on it) would still go to the same object, but a
        # method call on self may REBIND self.X: only attributes of methods that call no self.method() are aliased
        if called:
            return node
        reads = {}
        for n in ast.walk(node):
            if isinstance(n, ast.Attribute) and isinstance(n.ctx, ast.Load) and isinstance(n.value, ast.Name) and n.value.id == "self" and n.attr not in stored:
                reads[n.attr] = reads.get(n.attr, 0) + 1
        pick = sorted(a for a, k in reads.items() if k >= 2 and a in ("common", "shape", "weights", "validity", "null", "ignore_missing", "dims", "interacting_shape"))
        if not pick:
            return node

        class Sub(ast.NodeTransformer):
            def visit_Attribute(s, n):
                if isinstance(n.ctx, ast.Load) and isinstance(n.value, ast.Name) and n.value.id == "self" and n.attr in pick:
                    return ast.copy_location(ast.Name(n.attr + "_", ast.Load()), n)
                return s.generic_visit(n)
        body = [Sub().visit(b) for b in node.body]
        start = 1 if body and isinstance(body[0], ast.Expr) and isinstance(getattr(body[0], "value", None), ast.Constant) else 0
        pre = [ast.Assign([ast.Name(a + "_", ast.Store())], ast.Attribute(ast.Name("self", ast.Load()), a, ast.Load())) for a in pick]
        node.body = body[:start] + pre + body[start:]
        return node


KINDS = {"lencmp": LenCmp, "comploop": CompLoop, "aliasself": AliasSelf, "augassign": AugAssign, "invert": Invert, "flipcmp": FlipCmp, "temp": Temp, "nestif": NestIf}


def functions(tree):
    out = []
    for n in tree.body:
        if isinstance(n, ast.FunctionDef):
            out.append((n.name, n))
        if isinstance(n, ast.ClassDef):
            for m in n.body:
                if isinstance(m, ast.FunctionDef):
                    out.append(("%s.%s" % (n.name, m.name), m))
    return out


def apply(src, kind, target):
    """Source with `kind` applied to the function `target` (None = whole file); None when nothing changed."""
    tree = ast.parse(src)
    base = ast.unparse(tree)
    if kind == "unparse":
        return base if target is None else None
    for name, fn in functions(tree):
        if target is not None and name != target:
            continue
        if kind == "rename":
            rename_locals(fn)
        else:
            new = KINDS[kind]().visit(fn)
            fn.body = new.body
    ast.fix_missing_locations(tree)
    out = ast.unparse(tree)
    return None if out == base else out


def one(args):
    fname, kind, target, text, base_failed, props = args
    d = MS.make_scratch(fname, text)
    try:
        try:
            failed = MS.run_full_tests(d)
        except subprocess.TimeoutExpired:
            return (kind, target, "tests-timeout", [], [])
        if failed != base_failed:
            return (kind, target, "NOT-BENIGN (tests change: %s)" % [f for f in failed if f not in base_failed][:2], [], [])
        fired, und = MS.run_checks(d, props)
        return (kind, target, "FALSE-ALARM" if fired else ("undecided" if und else "ok"), fired, und)
    finally:
        shutil.rmtree(d, ignore_errors=True)


def main():
    fname = sys.argv[1]
    kinds = sys.argv[sys.argv.index("--kinds") + 1].split(",") if "--kinds" in sys.argv else ["unparse", "augassign", "invert", "flipcmp", "rename", "temp", "nestif", "lencmp", "comploop", "aliasself"]
    only = sys.argv[sys.argv.index("--only") + 1] if "--only" in sys.argv else None
    whole = "--whole" in sys.argv
    src = open(os.path.join(MS.REPO, "src", "catii", fname)).read()
    props = ["C%02d" % i for i in range(1, 21)]
    base = MS.baseline_failed()
    jobs = []
    for kind in kinds:
        if whole or kind == "unparse":
            t = apply(src, kind, None)
            if t is not None:
                jobs.append((fname, kind, None, t, base, props))
        else:
            for name, fn in functions(ast.parse(src)):
                if only and only not in name:
                    continue
                t = apply(src, kind, name)
                if t is not None:
                    jobs.append((fname, kind, name, t, base, props))
    print("file %s: %d rewrites" % (fname, len(jobs)))
    tally = {}
    with ThreadPoolExecutor(16) as ex:
        for kind, target, status, fired, und in ex.map(one, jobs):
            tally[status.split(" ")[0]] = tally.get(status.split(" ")[0], 0) + 1
            if status != "ok":
                print("%-12s %-10s %-40s %s %s" % (status[:60], kind, target or "<file>", fired or "", und or ""), flush=True)
    print("tally:", tally)


if __name__ == "__main__":
    main()
