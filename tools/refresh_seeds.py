#!/usr/bin/env python3
"""Re-run tools/try_patch.py on every seeded/<id>/patch.diff and refresh meta.json's static_checks
(which checks fire today).  /repo must be clean; it is restored after each patch."""
import glob
import json
import os
import re
import subprocess
import sys

HERE = os.path.dirname(os.path.dirname(os.path.abspath(__file__)))
bad = 0
for mp in sorted(glob.glob(os.path.join(HERE, "seeded", "*", "meta.json"))):
    d = os.path.dirname(mp)
    p = subprocess.run([sys.executable, os.path.join(HERE, "tools", "try_patch.py"), os.path.join(d, "patch.diff")], capture_output=True, text=True)
    out = p.stdout + p.stderr
    m = re.search(r"^FIRED: (.*)$", out, re.M)
    fired = m.group(1).split() if m and m.group(1).strip() != "none" else []
    rules = sorted(set(re.findall(r"VIOLATED (R-C\d\d-[\w-]+)", out)))
    meta = json.load(open(mp))
    meta["static_checks"]["fired"] = fired
    meta["static_checks"]["rules"] = rules
    json.dump(meta, open(mp, "w"), indent=1)
    own = meta["property"] in fired
    print(os.path.basename(d), "fired:", fired, "" if own else "  <-- the property's own check is silent")
    bad += not fired
sys.exit(1 if bad else 0)
