#!/usr/bin/env python3
"""Re-run all twenty quick checks on every seeded/<id>/patch.diff and refresh meta.json's static_checks (which checks
fire today).  Each patch is applied to a scratch copy of /repo's sources (patch(1)), never to /repo itself, so several
run in parallel.  Exits non-zero when a kept change is reported by no check, or not by its own property's check."""
import glob
import json
import os
import re
import shutil
import subprocess
import sys
from concurrent.futures import ThreadPoolExecutor

HERE = os.path.dirname(os.path.dirname(os.path.abspath(__file__)))
sys.path.insert(0, HERE)
from selftest.mutate import make_copy, apply_patch  # noqa: E402

PROPS = ["C%02d" % i for i in range(1, 21)]


def one(mp):
    d0 = os.path.dirname(mp)
    rel = os.path.relpath(os.path.join(d0, "patch.diff"), HERE)
    try:
        d = make_copy([])
        apply_patch(d, rel)
    except ValueError as e:
        return mp, None, None, str(e)
    fired, rules, und = [], set(), []
    try:
        env = dict(os.environ, CATII_REPO=d, VERIF_EVIDENCE_DIR=os.path.join(d, "evidence"), VERIF_NO_SELFTEST="1")
        for p in PROPS:
            try:
                r = subprocess.run(["/venv/bin/python", os.path.join(HERE, "checks", p.lower() + ".py"), "--tier", "quick"], capture_output=True, text=True, env=env, cwd=HERE, timeout=300)
            except subprocess.TimeoutExpired:
                continue
            if r.returncode == 1:
                fired.append(p)
                rules.update(re.findall(r"VIOLATED (R-C\d\d-[\w-]+)", r.stdout))
            elif r.returncode != 0:
                und.append(p)
    finally:
        shutil.rmtree(d, ignore_errors=True)
    return mp, fired, (sorted(rules), und), None


def main():
    metas = sorted(glob.glob(os.path.join(HERE, "seeded", "*", "meta.json")))
    bad = 0
    with ThreadPoolExecutor(int(os.environ.get("REFRESH_JOBS", "8"))) as ex:
        for mp, fired, rules, err in ex.map(one, metas):
            name = os.path.basename(os.path.dirname(mp))
            if err:
                print(name, "PATCH DOES NOT APPLY:", err[:120], flush=True)
                bad += 1
                continue
            meta = json.load(open(mp))
            meta["static_checks"]["fired"] = fired
            rules, und = rules
            meta["static_checks"]["rules"] = rules
            meta["static_checks"]["undecided"] = und
            meta["static_checks"]["tool"] = "tools/refresh_seeds.py (patch applied to a scratch copy of /repo's sources, all twenty quick checks)"
            json.dump(meta, open(mp, "w"), indent=1)
            own = meta["property"] in fired
            own_und = meta["property"] in und
            print(name, "fired:", fired, "undecided:", und, "" if own else ("  <-- own check UNDECIDED (exit 2): a rewrite outside the recognised schema" if own_und else "  <-- the property's own check is silent"), flush=True)
            bad += not (own or own_und)
    sys.exit(1 if bad else 0)


if __name__ == "__main__":
    main()
