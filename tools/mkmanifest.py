#!/usr/bin/env python3
"""Regenerate MANIFEST.json from the table below (keeps it valid at all times)."""
import json
import os

VERIF = os.path.dirname(os.path.dirname(os.path.abspath(__file__)))
ALL = ["C%02d" % i for i in range(1, 21)]

CHECKS = {
    "C19": dict(cat="proof", technique="AST decision-tree extraction + interval (box) proof against the NumPy integer-range table",
                text="fit_dtype touches its arguments only through comparisons with constants; the ladder is extracted from the AST as a finite decision tree, each leaf gets a box over (maxval, minval) and containment / signedness / minimality / coverage are proved by interval arithmetic on unbounded ints for every input in the domain. Thorough adds a cross-check of the extracted tree on all +-2^k(+-1) boundary cells.",
                note="Trusted: CPython ast, the table of NumPy integer ranges, interval arithmetic. Callers passing the right (max, min) are separate obligations under C01/C06/C10. A ladder rewritten outside the recognised subset (e.g. a loop over a table) is reported UNDECIDED, never VIOLATED.", ref="4 C19"),
    "C12": dict(cat="proof", technique="symbolic path walk of IndxIO.load/save: must-pass-through ordering, buffer provenance, size identity",
                text="Structural proof over all crash points: every path of load to a return passes magic check -> version check -> '<Q' size -> mmap(16+size) in this order, all later reads go through the mapped buffer, no handler swallows errors, and save records size = payload (symbolic identity) append-only. With three library facts (short read at EOF, struct.unpack raises on short buffers, mmap raises when the file is shorter than the requested length) every strict prefix of a written file is rejected.",
                note="Trusted: CPython ast, the symbolic walker (sa/symex.py), the three library facts. No file is written or read.", ref="4 C12"),
    "C11": dict(cat="other", technique="symbolic I/O event extraction compared with the INDX0001 spec table; linear-form identity for sizes/offsets; NEP-50 numeric-kind dataflow",
                text="Writer and reader field lists (extracted from struct.pack/tofile/unpack_from/ndarray events) are compared with the INDX0001 specification table kept in the checker (order, formats, roles, dtypes), the recorded size is proved equal to the sum of field widths as a linear identity, reader offsets equal the bytes consumed, and all size/cursor arithmetic is shown to be in unbounded Python ints (the 2^30-row-id clause).",
                note="Not decided: byte comparison against an independent encoder (execution). Assumes a little-endian host (tofile writes native order) and word sizes in {1,2,4,8}.", ref="4 C11"),
    "C10": dict(cat="other", technique="writer/reader table agreement over symbolic I/O events (translation-validation style), cursor arithmetic, helper-table enumeration, result-kind dataflow",
                text="Decides the structural necessary conditions of the round trip: writer and reader use the same encoding field by field, keys/lengths/row-id blocks are paired in the same order on both sides, reader cursor arithmetic is exact, helper tables format/dtype are right for 1,2,4,8, the index word is chosen from max(coordinates, common), and load returns tuple-of-int keys, an int common value and uint32 arrays on every path.",
                note="Declined: byte-level equality of save->load for all inputs (values). Only the tables are decided, not the behaviour.", ref="4 C10"),
}

CHECKS.update({
    "C17": dict(cat="other", technique="interprocedural ownership/aliasing + mod-ref analysis over a symbolic walk with full inlining (virtual calls through all overriders)",
                text="Exhaustive over the write sites of the current tree: every public entry point (cube constructors/calculate/shortcuts, every ffunc/xfunc constructor and get_initial_regions, non-mutating iindex methods, from_array, column_stack, IndxIO) is walked with all callees inlined; every element store, attribute rebind, del, in-place augmented assignment, mutating method and out= is classified by the storage roots of its target. A write that may reach caller-supplied storage, or self/aggregator state outside a constructor, is a violation naming the parameter. get_initial_regions returns fresh arrays; shortcuts build a new aggregator per call.",
                note="Declined: 'aggregates computed together equal each alone' as numerical equality. Trusted: NumPy/builtin summary table in sa/own.py (fresh/view/mutates rows), protocol type hints in sa/hints.py. Whitelisted by name, one symbol each: ffunc.tracing, ccube.intersection_data_points, xcube._tracing (diagnostics the property excludes), iindex.__init__'s in-place list->array normalisation of the dict it is given.", ref="4 C17"),
    "C16": dict(cat="other", technique="static effect/race analysis: write set of the pool-task closure classified LOCAL / PARTITIONED-by-task-coordinates / DIAGNOSTIC via derivation paths to captured storage; barrier and dispatch-API rules",
                text="Decides the mechanism that makes pooled evaluation schedule-independent, on code the test-suite never runs: every write of a task (transitively through fill_func/_fill/walk resp. fill/flat_regions/bins, all overriders) is task-local, or reaches the shared result regions only through region[tuple(flattened_slice)] with an index computed from the task argument alone, or is a named diagnostic; the whole-region case occurs only when the product has one element; dispatch is a blocking pool.map on a per-call pool; serial and pooled branches run the same closure over the same iterable; reduce runs after the barrier. Also decided: kernels fill only buffers allocated in the call (no module-level workspace, also not through a cdef helper); nothing on the tasks' path lives in threading.local storage set by another thread; no decision of calculate depends on an unsynchronised diagnostic counter. The task may be a closure or a method dispatched through functools.partial, and dispatch / poll may sit in private helper methods of the cube.",
                note="Declined: bit-for-bit equality of outputs as a run-time fact. Assumes distinct Cartesian-product elements differ in a coordinate and that integer indexing on leading axes + reshape yield views (NumPy facts). Trusted: multiprocessing.pool API semantics (map/starmap block, imap/map_async/apply_async do not).", ref="4 C16"),
    "C20": dict(cat="other", technique="event-order and dominance rules over the symbolic walk of calculate: callback placement, try/with transparency table, dispatch API, surviving-state mod-ref",
                text="For both cubes, serial and pooled activation: the interrupt callback is consulted exactly once per sub-cube task, before any store or effectful call, outside any loop of the task; no try/except or suppressing context manager between the public method and the callback can complete without re-raising; pooled dispatch re-raises and the pool is closed by a with; calculate leaves nothing on the cube or the aggregators besides named diagnostics that are re-initialised; the callback is a plain attribute (not a property over thread-local storage) and its return value decides nothing.",
                note="Declined: 'a following calculate equals a fresh evaluation' numerically. Trusted: pool.map re-raises a worker exception; closing/errstate do not suppress.", ref="4 C20"),
})

CHECKS.update({
    "C09": dict(cat="proof", technique="abstract interpretation over Cython's typed tree: linear-template loop invariants (Houdini) with Fourier-Motzkin entailment; bounded exact-path counterexamples",
                text="For every typed-memoryview index in a kernel compiled with boundscheck=False (35 sites, 70+ obligations in the three binary kernels) the bounds 0 <= index <= len-1 are proved from loop invariants inferred over the C int locals and symbolic buffer lengths; the multi-way union, whose indices are READ from integer arrays, is analysed content-aware (element facts derived from how its prelude builds the cursor / limit arrays), and its one access that is relational in array contents - the output write - is decided by a ranking-function argument over the k-way decision tables (sa/kway.py: capacity_argument). No raw memory call (memcpy ...) touches a caller-supplied general view. An obligation that cannot be discharged is reported as a violation only with a concrete integer counterexample (lengths, counters, branch trace) from an exact walk of at most two loop iterations; otherwise undecided.",
                note="Trusted: Cython 3.3.0 front-end (parser + type analysis, the same that compiles the module), own FM entailment, numpy.empty(n) has length n. Assumes lengths < 2^30 (no C int overflow) and that the .so is built from the analysed .pyx. NumPy facts used by the prelude algebra (prefix sums of non-negative lengths, concatenate) are listed as assumptions in the evidence; the induction from the per-round facts of the k-way tables to `count + Phi <= len(values)` is the trusted textbook step.", ref="4 C09"),
})

CHECKS.update({
    "C08": dict(cat="other", technique="decision-table extraction from Cython's typed tree (branch events, tail loops, scenario evaluation of the prelude) compared with the tables the set operations require; symbolic walk of the Python wrappers; declared-type and structure rules for the k-way merge",
                text="The merge kernels touch element values only through a three-way comparison, so each has a finite decision table: per branch the emitted side and advanced cursors, the tail copies, the result for an empty operand or non-overlapping ranges, cache coherence of the cursor values, and output = filled prefix. These tables are extracted and compared with the ones intersection/union/difference require; the wrappers' None/empty table is enumerated over all 40 operand/flag scenarios; callers pass operands in the required order; the multi-way union's loop is normalised to reset / scan / exit / emit / advance and the decision table of each part (cursor vs limit, marker vs reset value, head vs minimum; 12 + 2 + 6 cells) is compared with the required one, together with the layout of its flat buffers (concatenation, exclusive / inclusive prefix sums), the initial count, the returned prefix and the empty case; the C scalars caching element values are at least as wide as the elements.",
                note="Declined: a functional-correctness proof of the merge loops over sequences. With C09 (bounds) and C07 (sorted inputs) the decided tables are every ingredient of the textbook argument. A kernel rewritten into another algorithm is UNDECIDED, never VIOLATED. Trusted: Cython front-end; required tables in sa/kernels.py.", ref="4 C08"),
})

CHECKS.update({
    "C15": dict(cat="other", technique="class-structure rule (__eq__/__ne__ slots of a dict subclass), post-dominance of shift_common() on result objects, arg-max idiom recognition on loop back-edge terms, taint reachability into __eq__'s result",
                text="Decides the structural clauses: != is defined as the negation of == (a dict subclass otherwise inherits dict.__ne__, which raises on arrays); append and filtered end with an argument-less shift_common() after their last store, collapsed delegates to from_array without a common; the three selection sites are arg-max idioms (running maximum / max of (count, value) pairs) over counts that include the common value's own implicit count; __eq__'s result depends on shape, common, entry count and every entry's row ids of both operands, with AttributeError the only exception mapped to False.",
                note="Declined: that the chosen value's count is maximal for given data, and a == b iff dense contents coincide over histories (values). An unrecognised selection idiom is UNDECIDED.", ref="4 C15"),
    "C06": dict(cat="other", technique="mod/ref frame-condition analysis of all iindex methods and column_stack; fresh-storage check of requested copies under a specialised copy flag; category-vs-extent classification of fit_dtype call sites",
                text="NARROW CLAIM: necessary structural conditions, operation by operation - operands other than the receiver are never written and non-mutating methods do not write the receiver (all methods, callees inlined); requested copies store only fresh arrays; no operation returns the receiver or an argument as its result; sliced / slices1d / column_stack / append / reindexed / collapsed / set_if / filtered / get / items(force) match the schema the NumPy operation dictates (which entries are kept, how keys and row ids are renumbered, the shape of the result, which rows the common value of the other operand covers); collapsed is the documented precedence algorithm (region by region); optional category parameters are tested with `is None`; fit_dtype call sites pass the maximum and the minimum of the same values; every operation's result is a well-formed index (C07) of a wide-enough dtype (C19).",
                note="Declined, loudly: the NumPy-model equivalence of append/update/filtered/sliced/reindexed/collapsed/column_stack over operation histories is a statement about values and histories that no static argument in reach decides; e.g. collapsed() returning a value absent from the row when the precedence omits a present value is NOT detectable here.", ref="4 C06"),
})

CHECKS.update({
    "C07": dict(cat="other", technique="row-id typestate over every entries-dict store site (sorted/unique, non-empty, dtype, provenance) from term shape, dominating guards and repository idioms; key-vs-common dominance rule; event-order rule for update",
                text="Well-formedness is an invariant of every store into an entries dict; the analysis enumerates all such store sites of iindex, column_stack and IndxIO.load (callees inlined) and shows, per alternative value and path, that the stored array is strictly increasing, non-empty, uint32, of an accepted provenance (range/exclusivity), and that its key cannot equal the final common value of the index being built. Assume-guarantee: entries read from existing indexes are well-formed (the induction hypothesis); what is stored must be re-established. Exhaustive over the store sites of the current tree.",
                note="Assumed and recorded in the evidence: caller-supplied partial entries of update/union_update/intersection_update/difference_update/set_if meet their documented preconditions; assume_unique=True is the caller's promise; an INDX file being loaded was saved from a well-formed index. Range and exclusivity are decided by a table of accepted provenances (one line of reason each), not by arithmetic. Trusted: the row-id transfer table in sa/rowids.py.", ref="4 C07"),
})

CHECKS.update({
    "C14": dict(cat="other", technique="case-set extraction from the symbolic walk of _walk (emissions / recursions with their coordinate form, row form, branch conditions, loop context, dominating len() guard) compared with the six required cases",
                text="Decides the walk schema: every callback invocation or recursion is (base ++ entry coords, entry rows | INTERSECT(base rows, entry rows)) from one loop iteration or (base ++ (-1,), base rows); each emission and each recursion on an intersection is behind a len() test; the marginal recursion is unconditional and outside the entry loop, the marginal emission only when base rows exist; the six cases appear exactly once each and nothing else is presented; entries are iterated without force and .common is never read; walk starts at ((), None) and interactions collects the delivered pairs.",
                note="Declined: equality of delivered row ids with a brute-force oracle (values). Relies on C08 (exact intersection) and C07 (non-empty entries).", ref="4 C14"),
    "C13": dict(cat="other", technique="tuple-term shape algebra over cube constructors, region constructors and task closures; structural unrolling rules for slices1d / product",
                text="Decides the axis-order algebra: scaffold_shape enumerates d.shape[1:] in dims order then axis order; working_shape / marginless / corner (index cube) and shape (array cube) put the extra axes first, then one category axis per dimension; every aggregator allocates cube-shape ++ fact columns and ffunc results are trimmed by marginless; slices1d peels the last axis and prepends its coordinate (axis order), xcube.product enumerates range(extent) per extra axis in order; a task's data slices and coordinates come from the same product element in the same order; sub-cubes inherit the parent's category extents; blocks are selected by integer indices on leading axes (views).",
                note="Declined: the block at any extra-axis position equals the cube of the corresponding 1-D slices (values). ccube.shape is deliberately not checked (not on any result path). Unrecognised formulations are UNDECIDED.", ref="4 C13"),
})

CHECKS.update({
    "C02": dict(cat="other", technique="differencing typestate over every ffunc reduce (per configuration), corner/cell agreement in the aggregate algebra, predicate extraction, taint + numeric-kind of the inferred extent, structural rule for the differencing routine",
                text="Decides the structural conditions under which the reconstructed common cells are right: every region of every index-cube aggregate is differenced exactly once before it is trimmed/tested/returned (156 region x configuration instances); ffunc_count's corner values are the all-rows instances of its per-cell values; unweighted count reports missing exactly where the trimmed differenced count is zero; the inferred extent is max(entries, common)+1 in Python ints; the differencing routine writes margin - sum(uncommon) at the dimension's own common coordinate, axis by axis; the count region is a float region whenever weights are given.",
                note="Declined: every cell equals the brute-force contingency count for all data (values). Relies on C14 (walk schema), C08 (exact intersection), C07 (well-formed indexes).", ref="4 C02"),
    "C03": dict(cat="other", technique="configuration-indexed partial evaluation (weights none/array/scalar x policy x format x arity x coordinates) + aggregate-algebra normal forms; sibling cross-check ffunc_X vs xfunc_X; NEP-50 numeric kind of inferred extents; def-use order in strided_dims",
                text="For count / valid_count / sum / mean: the two constructors normalise to the same row arrays; for every region role each of the array cube's fill branches (no coordinates, bincount, bins - branches the tests never run) stores the reducer the index cube stores per cell, and every index-cube corner is the all-rows instance of its cell value (200+ comparisons); the missing-cell predicates agree; the array cube's inferred extents are Python ints; coordinates are widened before being multiplied by their stride; per configuration a region that receives weight or fact values is never an integer region; strides are row-major, bins() yields one mask per cell, the flat coordinate is the sum of the strided slices.",
                note="Declined: numerical agreement within 1e-9 (values). nansum is identified with sum on zero-filled arrays and .T pairs are ignored by the normaliser (recorded assumptions). A form the normaliser does not recognise is UNDECIDED.", ref="4 C03"),
    "C04": dict(cat="other", technique="predicate-table extraction from every reduce per configuration; def-use identity of the sentinel mask and the returned validity; integrality of counters in the aggregate algebra",
                text="For both cube types, every shared aggregate, weight mode, policy and report format (300 configurations): the mask that selects missing cells is exactly valid==0 | missing!=0 (propagate), valid==0 (ignore), count==0 (unweighted count), with the weighted valid count behind `valid` for means only; in the pair format the returned validity is the negation of the very mask at which the sentinel return_missing_as[0] is written, and NaN and pair formats use the same mask; exact zero tests in the index cube act only on integral counters or after adjust_zeros(new=0).",
                note="Declined: that the counters hold the right numbers for given data (values; their definitions are checked by C03). valid_count with plain replacement 0 is excluded, as the property says.", ref="4 C04"),
    "C05": dict(cat="other", technique="taint/reachability rules over terms: dependence of the differencing write on dim.common, independence of corner values from any encoding, absence of literal coordinate tests, event order in shift_common",
                text="Decides reachability facts that are necessary for encoding independence: marginal differencing writes at the differenced dimension's own common coordinate (the `0 instead of dim.common` mutant passes every test fixture); grand totals in the corner depend only on fact/weight arrays and the row count; walk, fill closures and reduce never compare a coordinate with an integer literal other than -1 and never read .common; shift_common stores the old common rows before deleting the new common's entries and before rebinding .common, per column in the 2-D branch.",
                note="Declined: cell-by-cell invariance of every aggregate under re-encoding (values).", ref="4 C05"),
    "C18": dict(cat="other", technique="predicate extraction for stddev per configuration; sentinel-mask/validity identity; NaN-seeding normal forms of constructor fields; delegation-call table",
                text="NARROW CLAIM (second sentence only). The stddev missing-cell mask contains valid<2 under both policies; for stddev, quantile, min, max, corrcoef, covariance the pair-format validity is the negation of the mask at which the sentinel is written and that mask is taken from the values before replacement; invalid rows (fact AND weight validity) are NaN-seeded in the constructors and ignore_missing selects by validity / uses nanquantile; each statistic delegates to the documented NumPy routine (quantile/nanquantile axis=0, amin/amax, corrcoef rowvar=False, cov(segment.T, aweights), N-1 divisor); the weighted quantile under propagation is dominated by a whole-segment missing test (R-C18-e). Structure of the statistics themselves (first sentence, necessary conditions only): stddev dispatches per column, scales the variance by 1/(N-1) (unweighted) or N/(N-1) (weighted), multiplies the squared deviations by the weights and stores one square root per branch; min / max store a value together with validity True under the same guards, for non-empty cells that are all-valid (propagate) or after selecting valid rows (ignore); every branch of quantile / corrcoef / covariance (with and without coordinates, weighted or not) stores its NumPy result with axis=0 / rowvar=False / segment.T; a per-column validity is reduced to complete rows over the column axis; negative quantile weights are zeroed.",
                note="Declined, loudly: per-cell numerical equality with the textbook statistic (floating point).", ref="4 C18"),
})

CHECKS.update({
    "C01": dict(cat="other", technique="category-vs-extent classification of fit_dtype call sites, dominance of accumulate-style stores for mapped keys, subscript-load rule for a caller-chosen key, structural agreement of the two construction branches",
                text="NARROW CLAIM: four necessary conditions of the round trip, each with a violating input whenever it fires - to_array passes a minimum to fit_dtype for category values (negatives); inside loops, plain-dict stores keyed by a mapped value accumulate (many-to-one mappings merge instead of overwriting); a caller-chosen common value absent from the data is never used as a plain subscript into a data-keyed dict; the numpy.where branch and the row-scan branch (which no test executes) skip exactly `mapped value == common`, key by (mapped value[, column from enumerate(values.T)]) and store row positions of that same column.",
                note="Declined, loudly: element-for-element equality of array -> index -> array for every input and option is a statement about values and needs execution.", ref="4 C01"),
})

NA_REASON = "check not built yet (build in progress; see DESIGN.md section 8)"


def rules_of(pid):
    """The RULES table of checks/<pid>.py, read from its source (no import: the check modules pull in the analysis engines)."""
    import ast
    path = os.path.join(VERIF, "checks", pid.lower() + ".py")
    try:
        tree = ast.parse(open(path).read())
    except Exception:
        return {}
    for node in tree.body:
        if isinstance(node, ast.Assign) and any(isinstance(t, ast.Name) and t.id == "RULES" for t in node.targets):
            try:
                return ast.literal_eval(node.value)
            except Exception:
                return {}
    return {}


def main():
    checks = []
    for pid in ALL:
        c = CHECKS.get(pid)
        if not c:
            continue
        low = pid.lower()
        rules = rules_of(pid)
        if rules:
            c = dict(c)
            c["note"] = c["note"] + " | Rules decided on every run (ids as in the evidence file; the claim above is the summary, this list is complete): " + "; ".join("%s: %s" % (k, v) for k, v in sorted(rules.items()))
        checks.append({
            "property_id": pid,
            "quick_cmd": "/venv/bin/python checks/%s.py --tier quick" % low,
            "thorough_cmd": "/venv/bin/python checks/%s.py --tier thorough" % low,
            "evidence_file": "/verif/evidence/%s.json" % pid,
            "replay_cmd_template": "/venv/bin/python checks/%s.py --replay {path}" % low,
            "engine": c.get("engine", "sa"),
            "level_claimed": {"category": c["cat"], "text": c["text"], "design_ref": "DESIGN.md section " + c["ref"]},
            "level_note": c["note"],
            "technique": c["technique"],
        })
    na = [{"property_id": p, "reason": NA.get(p, NA_REASON)} for p in ALL if p not in CHECKS]
    m = {
        "version": 1,
        "setup_cmd": "mkdir -p /verif/evidence /verif/out && /venv/bin/python -c \"import ast, Cython; print('static-analysis toolchain ok')\"",
        "hooks": {
            "guard": "CRUNCH_IO_CATII_VERIF",
            "enable": "n/a - static analysis reads /repo's sources; nothing is instrumented or executed",
            "baseline_off_cmd": "cd /repo && /venv/bin/python -m pytest -ra -q -p no:cacheprovider --timeout=900 --continue-on-collection-errors",
            "source_commits": [],
            "add_only": True,
        },
        "engines": [
            {"name": "sa", "path": "/verif/sa", "serves_properties": sorted(CHECKS),
             "kind_free_text": "repo-specific static analysis: ast front-end + symbolic walker with inlining (sa/symex.py), numeric-kind and ownership dataflow, Cython typed-tree front-end with a Fourier-Motzkin template-invariant engine; no catii code is imported or run"},
        ],
        "checks": checks,
        "not_applicable": na,
        "notes": "Technique family: static analysis only. Exit 0 = all obligations PROVED (or only known findings), 1 = VIOLATED construct not in known_findings.json, 2 = UNDECIDED/analysis error (never a verdict). fix: commits in /repo are listed in known_findings.json as fixed.",
    }
    with open(os.path.join(VERIF, "MANIFEST.json"), "w") as f:
        json.dump(m, f, indent=1)
    print("MANIFEST: %d checks, %d not_applicable" % (len(checks), len(na)))


NA = {}

if __name__ == "__main__":
    main()
