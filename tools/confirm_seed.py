#!/usr/bin/env python3
"""Confirm a sub-agent's seeded change before it is kept under /verif/seeded/<id>/.

usage: tools/confirm_seed.py <patch.diff> <demo.py> <base-commit> [--keep-as seeded/<name>]

Everything happens in two scratch worktrees of /repo under /tmp (removed afterwards):
  base    = <base-commit>, extension built in place
  patched = <base-commit> + patch, extension rebuilt when the patch touches a .pyx
and the following is established by running, not by trusting the sub-agent:
  1. the patch applies and the package imports (and, for .pyx, compiles);
  2. the test suite has the same outcome for every test in both trees
     (tests listed as flaky in /root/.vp/BASELINE.json are ignored, and so are pass<->xfail
     flips of the wall-clock benchmarks under benchmarks/);
  3. demo.py exits 0 on base and non-zero on patched.
This is the demonstration step only; the static checks are run separately with
tools/try_patch.py (they never execute catii).
"""
import json
import os
import shutil
import subprocess
import sys
import xml.etree.ElementTree as ET

REPO = "/repo"
PY = "/venv/bin/python"


def sh(cmd, cwd=None, env=None, timeout=3600):
    p = subprocess.run(cmd, shell=True, cwd=cwd, env=env, capture_output=True, text=True, timeout=timeout)
    return p.returncode, p.stdout + p.stderr


def build(wt):
    rc, out = sh("CYTHONIZE_SETUP_PY=1 %s setup.py build_ext --inplace >/dev/null 2>&1; rc=$?; rm -rf build; exit $rc" % PY, cwd=wt)
    return rc == 0


def outcomes(wt, tag):
    xml = "/tmp/confirm_%s_%d.xml" % (tag, os.getpid())
    env = dict(os.environ, PYTHONPATH=wt + "/src")
    sh("%s -m pytest -q -p no:cacheprovider --timeout=900 --continue-on-collection-errors --junitxml=%s tests benchmarks" % (PY, xml), cwd=wt, env=env)
    res = {}
    for tc in ET.parse(xml).getroot().iter("testcase"):
        name = "%s::%s" % (tc.get("classname"), tc.get("name"))
        st = "pass"
        for ch in tc:
            if ch.tag in ("failure", "error"):
                st = "fail"
            elif ch.tag == "skipped":
                st = "skip"
        res[name] = st
    os.remove(xml)
    return res


def main():
    patch, demo, base = sys.argv[1:4]
    patch, demo = os.path.abspath(patch), os.path.abspath(demo)
    flaky = set(json.load(open("/root/.vp/BASELINE.json")).get("flaky", []))
    root = "/tmp/confirm_%d" % os.getpid()
    wb, wp = root + "/base", root + "/patched"
    os.makedirs(root)
    report = {"base_commit": base, "patch": patch}
    try:
        for wt in (wb, wp):
            rc, out = sh("git -C %s worktree add --detach %s %s" % (REPO, wt, base))
            assert rc == 0, out
        rc, out = sh("git apply %s" % patch, cwd=wp)
        report["applies"] = rc == 0
        assert rc == 0, out
        touches_pyx = ".pyx" in open(patch).read()
        assert build(wb), "base build failed"
        if touches_pyx:
            report["patched_build"] = build(wp)
            assert report["patched_build"], "patched build failed"
        else:
            for f in os.listdir(wb + "/src/catii"):
                if f.endswith(".so"):
                    shutil.copy(wb + "/src/catii/" + f, wp + "/src/catii/" + f)
        from concurrent.futures import ThreadPoolExecutor
        with ThreadPoolExecutor(2) as ex:
            fb = ex.submit(outcomes, wb, "b")
            fp = ex.submit(outcomes, wp, "p")
            ob, op = fb.result(), fp.result()
        diff = {k: (ob.get(k), op.get(k)) for k in set(ob) | set(op) if ob.get(k) != op.get(k) and not any(k.replace("::", ".").startswith(f.rsplit("::", 1)[0]) and k.endswith(f.rsplit("::", 1)[-1]) for f in flaky)}
        # benchmarks/ tests xfail on a wall-clock threshold: pass <-> skip(xfail) flips there are load noise
        timing = {k: v for k, v in diff.items() if k.startswith("benchmarks.") and set(v) <= {"pass", "skip"}}
        diff = {k: v for k, v in diff.items() if k not in timing}
        report["timing_flips_ignored"] = sorted(timing)
        report["suite"] = {"tests": len(ob), "base_pass": sum(v == "pass" for v in ob.values()), "patched_pass": sum(v == "pass" for v in op.values()), "outcome_changes": diff}
        rb, outb = sh("%s %s" % (PY, demo), env=dict(os.environ, PYTHONPATH=wb + "/src"), cwd=root, timeout=900)
        rp, outp = sh("%s %s" % (PY, demo), env=dict(os.environ, PYTHONPATH=wp + "/src"), cwd=root, timeout=900)
        report["demo"] = {"base_exit": rb, "patched_exit": rp, "patched_tail": outp.strip().splitlines()[-3:]}
        report["confirmed"] = (not diff) and rb == 0 and rp != 0
    except AssertionError as e:
        report["confirmed"] = False
        report["error"] = str(e)[-500:]
    finally:
        for wt in (wb, wp):
            sh("git -C %s worktree remove --force %s" % (REPO, wt))
        sh("git -C %s worktree prune" % REPO)
        shutil.rmtree(root, ignore_errors=True)
    print(json.dumps(report, indent=1))
    return 0 if report["confirmed"] else 1


if __name__ == "__main__":
    sys.exit(main())
