#!/usr/bin/env python3
"""Mutation sweep of the CHECKER (not part of any check): generate small syntactic mutants of one source file of
/repo/src/catii, drop those the repository's own tests already kill, run the twenty quick checks on the rest and list
the SURVIVORS (mutants that pass the tests and that no check reports).  Survivors are triaged by hand: equivalent /
outside the properties / a blind spot that deserves a rule.

usage: tools/mutsweep.py <file.py> [--only <function-name-substring>] [--max N] [--out report.json] [--gen2]

--gen2 switches to the second set of operators: negated / removed if-tests, dropped else branches, swapped conditional-expression branches, one operand of and / or kept, dropped
subscripts and .T, sibling-function replacement (all <-> any, min <-> max, union <-> intersection, ...) and swapped arguments of two-argument calls.

Scratch copies live under $TMPDIR and are removed at once.  catii's tests are executed here (on the scratch copy) only
to decide whether a mutant is 'realistic' in the sense of the task (it must pass the existing suite)."""
import ast
import copy
import json
import os
import shutil
import subprocess
import sys
import tempfile
from concurrent.futures import ThreadPoolExecutor

HERE = os.path.dirname(os.path.dirname(os.path.abspath(__file__)))
REPO = "/repo"
PY = "/venv/bin/python"
CMP = {ast.Lt: ast.LtE, ast.LtE: ast.Lt, ast.Gt: ast.GtE, ast.GtE: ast.Gt, ast.Eq: ast.NotEq, ast.NotEq: ast.Eq, ast.Is: ast.IsNot, ast.IsNot: ast.Is, ast.In: ast.NotIn, ast.NotIn: ast.In}
FN = {"all": "any", "any": "all", "min": "max", "max": "min", "amin": "amax", "amax": "amin", "nansum": "sum", "nanquantile": "quantile", "quantile": "nanquantile", "argmax": "argmin",
      "argmin": "argmax", "cumsum": "cumprod", "cumprod": "cumsum", "union": "intersection", "intersection": "union", "difference": "intersection", "count_nonzero": "sum", "isnan": "isfinite",
      "append": "extend", "sorted": "list", "zeros": "ones", "floor": "ceil", "flatnonzero": "nonzero", "concatenate": "hstack", "setdefault": "get", "astype": "view", "empty": "zeros",
      "bincount": "unique", "array_equal": "allclose", "where": "nonzero", "logical_and": "logical_or", "logical_or": "logical_and", "maximum": "minimum", "minimum": "maximum", "unique": "sort",
      "items": "keys", "keys": "values", "pop": "get", "update": "setdefault", "isclose": "equal", "nanmax": "max", "nanmin": "min", "flip": "sort", "reversed": "list", "enumerate": "zip"}
BIN = {ast.Add: ast.Sub, ast.Sub: ast.Add, ast.Mult: ast.FloorDiv, ast.FloorDiv: ast.Mult, ast.BitAnd: ast.BitOr, ast.BitOr: ast.BitAnd}


class Mutator(ast.NodeTransformer):
    """Applies the k-th mutation opportunity met in document order."""

    gen2 = False

    def __init__(self, target):
        self.target = target
        self.count = 0
        self.desc = None
        self.func = []

    def hit(self, desc, node):
        self.count += 1
        if self.count - 1 == self.target:
            self.desc = "%s@%d %s" % (".".join(self.func) or "<module>", getattr(node, "lineno", 0), desc)
            return True
        return False

    def visit_FunctionDef(self, node):
        self.func.append(node.name)
        self.generic_visit(node)
        self.func.pop()
        return node

    def visit_ClassDef(self, node):
        self.func.append(node.name)
        self.generic_visit(node)
        self.func.pop()
        return node

    def visit_If(self, node):
        self.generic_visit(node)
        if self.gen2:
            if self.hit("negate if-test", node):
                node.test = ast.UnaryOp(ast.Not(), node.test)
            elif node.orelse and self.hit("drop else branch", node):
                node.orelse = []
            elif self.hit("if-test -> True", node):
                node.test = ast.Constant(True)
        return node

    def visit_IfExp(self, node):
        self.generic_visit(node)
        if self.gen2 and self.hit("swap ifexp branches", node):
            node.body, node.orelse = node.orelse, node.body
        return node

    def visit_Subscript(self, node):
        self.generic_visit(node)
        if self.gen2 and isinstance(node.ctx, ast.Load) and not isinstance(node.slice, (ast.Constant, ast.Slice, ast.Tuple)) and self.hit("drop subscript [%s]" % ast.unparse(node.slice)[:20], node):
            return node.value
        return node

    def visit_Attribute(self, node):
        self.generic_visit(node)
        if self.gen2 and node.attr == "T" and self.hit("drop .T", node):
            return node.value
        return node

    def visit_Compare(self, node):
        self.generic_visit(node)
        if self.gen2:
            return node
        for i, op in enumerate(node.ops):
            if type(op) in CMP and self.hit("cmp %s->%s" % (type(op).__name__, CMP[type(op)].__name__), node):
                node.ops[i] = CMP[type(op)]()
        return node

    def visit_BinOp(self, node):
        self.generic_visit(node)
        if self.gen2:
            return node
        if type(node.op) in BIN and self.hit("binop %s->%s" % (type(node.op).__name__, BIN[type(node.op)].__name__), node):
            node.op = BIN[type(node.op)]()
        return node

    def visit_BoolOp(self, node):
        self.generic_visit(node)
        if self.gen2:
            if len(node.values) == 2 and self.hit("boolop keep left only", node):
                return node.values[0]
            if len(node.values) == 2 and self.hit("boolop keep right only", node):
                return node.values[1]
            return node
        if self.hit("boolop swap", node):
            node.op = ast.Or() if isinstance(node.op, ast.And) else ast.And()
        return node

    def visit_UnaryOp(self, node):
        self.generic_visit(node)
        if self.gen2:
            return node
        if isinstance(node.op, (ast.Not, ast.Invert)) and self.hit("drop %s" % type(node.op).__name__, node):
            return node.operand
        return node

    def visit_Constant(self, node):
        if self.gen2:
            return node
        if isinstance(node.value, bool):
            if self.hit("bool flip", node):
                return ast.copy_location(ast.Constant(not node.value), node)
        elif isinstance(node.value, int) and -2 <= node.value <= 8:
            if self.hit("int %d->%d" % (node.value, node.value + 1), node):
                return ast.copy_location(ast.Constant(node.value + 1), node)
            if self.hit("int %d->%d" % (node.value, node.value - 1), node):
                return ast.copy_location(ast.Constant(node.value - 1), node)
        return node

    def visit_Call(self, node):
        self.generic_visit(node)
        if self.gen2:
            f = node.func
            nm = f.attr if isinstance(f, ast.Attribute) else (f.id if isinstance(f, ast.Name) else None)
            if nm in FN and self.hit("call %s -> %s" % (nm, FN[nm]), node):
                if isinstance(f, ast.Attribute):
                    f.attr = FN[nm]
                else:
                    f.id = FN[nm]
            elif len(node.args) == 2 and not node.keywords and ast.dump(node.args[0]) != ast.dump(node.args[1]) and self.hit("swap the two arguments of %s" % (nm,), node):
                node.args = [node.args[1], node.args[0]]
            return node
        # x.copy() -> x ; drop axis= / minlength= / dtype= keywords
        if isinstance(node.func, ast.Attribute) and node.func.attr in ("copy",) and not node.args and not node.keywords and self.hit("drop .copy()", node):
            return node.func.value
        for i, kw in enumerate(list(node.keywords)):
            if kw.arg in ("axis", "minlength", "copy", "copy_right", "copy_left", "force") and self.hit("drop keyword %s" % kw.arg, node):
                node.keywords.pop(i)
                break
        return node

    def _maybe_delete(self, node):
        if self.gen2:
            return None
        if self.hit("delete statement %s" % type(node).__name__, node):
            return ast.copy_location(ast.Pass(), node)
        return None

    def visit_Expr(self, node):
        self.generic_visit(node)
        if isinstance(node.value, ast.Call):
            r = self._maybe_delete(node)
            if r is not None:
                return r
        return node

    def visit_AugAssign(self, node):
        self.generic_visit(node)
        r = self._maybe_delete(node)
        return r if r is not None else node

    def visit_Continue(self, node):
        r = self._maybe_delete(node)
        return r if r is not None else node

    def visit_Break(self, node):
        r = self._maybe_delete(node)
        return r if r is not None else node

    def visit_Assign(self, node):
        self.generic_visit(node)
        # stores into a subscript / attribute (not plain name bindings, whose removal just raises NameError)
        if any(isinstance(t, (ast.Subscript, ast.Attribute)) for t in node.targets):
            r = self._maybe_delete(node)
            if r is not None:
                return r
        return node


def make_scratch(fname, text):
    d = tempfile.mkdtemp(prefix="catii-mut-")
    dst = os.path.join(d, "src", "catii")
    os.makedirs(dst)
    src = os.path.join(REPO, "src", "catii")
    for fn in os.listdir(src):
        if fn.endswith((".py", ".pyx", ".so")):
            shutil.copy(os.path.join(src, fn), os.path.join(dst, fn))
    with open(os.path.join(dst, fname), "w") as f:
        f.write(text)
    return d


def run_tests(d):
    env = dict(os.environ, PYTHONPATH=os.path.join(d, "src"))
    p = subprocess.run([PY, "-m", "pytest", "-q", "-p", "no:cacheprovider", "-x", "--timeout=120", "tests", "-q", "--no-header", "-rf"], cwd=REPO, env=env, capture_output=True, text=True, timeout=600)
    failed = sorted(l.split(" ")[1] for l in p.stdout.splitlines() if l.startswith("FAILED "))
    return failed, p.returncode


def baseline_failed():
    env = dict(os.environ, PYTHONPATH=os.path.join(REPO, "src"))
    p = subprocess.run([PY, "-m", "pytest", "-q", "-p", "no:cacheprovider", "--timeout=120", "tests", "-q", "--no-header", "-rf"], cwd=REPO, env=env, capture_output=True, text=True, timeout=900)
    return sorted(l.split(" ")[1].rstrip() for l in p.stdout.splitlines() if l.startswith("FAILED "))


def run_full_tests(d):
    env = dict(os.environ, PYTHONPATH=os.path.join(d, "src"))
    p = subprocess.run([PY, "-m", "pytest", "-q", "-p", "no:cacheprovider", "--timeout=120", "tests", "-q", "--no-header", "-rf"], cwd=REPO, env=env, capture_output=True, text=True, timeout=900)
    return sorted(l.split(" ")[1].rstrip() for l in p.stdout.splitlines() if l.startswith("FAILED "))


def run_checks(d, props):
    env = dict(os.environ, CATII_REPO=d, VERIF_EVIDENCE_DIR=os.path.join(d, "evidence"), VERIF_NO_SELFTEST="1")
    fired, und = [], []
    for p in props:
        try:
            r = subprocess.run([PY, os.path.join(HERE, "checks", p.lower() + ".py"), "--tier", "quick"], capture_output=True, text=True, env=env, cwd=HERE, timeout=240)
            rc = r.returncode
        except subprocess.TimeoutExpired:
            rc = 2
        if rc == 1:
            fired.append(p)
        elif rc != 0:
            und.append(p)
    return fired, und


def one(args):
    fname, k, src, base_failed, props = args
    tree = ast.parse(src)
    m = Mutator(k)
    new = m.visit(tree)
    if m.desc is None:
        return None
    ast.fix_missing_locations(new)
    try:
        text = ast.unparse(new)
    except Exception:
        return {"k": k, "desc": m.desc, "status": "unparse-error"}
    d = make_scratch(fname, text)
    try:
        try:
            failed = run_full_tests(d)
        except subprocess.TimeoutExpired:
            return {"k": k, "desc": m.desc, "status": "killed-by-tests (timeout)"}
        if failed != base_failed:
            return {"k": k, "desc": m.desc, "status": "killed-by-tests"}
        fired, und = run_checks(d, props)
        return {"k": k, "desc": m.desc, "status": "caught" if fired else ("undecided" if und else "SURVIVED"), "fired": fired, "undecided": und}
    finally:
        shutil.rmtree(d, ignore_errors=True)


def main():
    fname = sys.argv[1]
    Mutator.gen2 = "--gen2" in sys.argv
    only = sys.argv[sys.argv.index("--only") + 1] if "--only" in sys.argv else None
    mx = int(sys.argv[sys.argv.index("--max") + 1]) if "--max" in sys.argv else 100000
    out = sys.argv[sys.argv.index("--out") + 1] if "--out" in sys.argv else None
    src = open(os.path.join(REPO, "src", "catii", fname)).read()
    # normalise through unparse so that every mutant differs from the baseline text in one place only
    props = ["C%02d" % i for i in range(1, 21)]
    if fname not in ("iindexes.py",):
        props = [p for p in props if p not in ("C08", "C09")]
    # count opportunities
    m = Mutator(-1)
    m.visit(ast.parse(src))
    total = m.count
    base = baseline_failed()
    print("file %s: %d mutation opportunities; baseline failing tests: %d" % (fname, total, len(base)))
    jobs = []
    for k in range(total):
        if only:
            mm = Mutator(k)
            mm.visit(ast.parse(src))
            if mm.desc is None or only not in mm.desc.split("@")[0]:
                continue
        jobs.append((fname, k, src, base, props))
        if len(jobs) >= mx:
            break
    res = []
    with ThreadPoolExecutor(16) as ex:
        for r in ex.map(one, jobs):
            if r is None:
                continue
            res.append(r)
            if r["status"] in ("SURVIVED", "undecided"):
                print("%-9s %s %s" % (r["status"], r["desc"], r.get("undecided") or ""))
    tally = {}
    for r in res:
        tally[r["status"]] = tally.get(r["status"], 0) + 1
    print("tally:", tally)
    if out:
        json.dump(res, open(out, "w"), indent=1)


if __name__ == "__main__":
    main()
