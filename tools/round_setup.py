#!/usr/bin/env python3
"""Prepare one round of adversarial sub-agent work (not part of any check).

For every property creates a scratch git worktree of /repo under <base>/<Cxx> (outside /repo and /verif), an output
directory <base>/<Cxx>_out with PROPERTY.txt (the property's text only - nothing from /verif), and a prompt file
<base>/prompts/<Cxx>.txt that lists the ideas already kept under seeded/ for that property so the agent proposes
something different.

usage: tools/round_setup.py <base dir, e.g. /tmp/wt5> [--benign] [--angle "<extra steer>"] [Cxx ...]
       (--benign: the agents are asked for a behaviour-PRESERVING refactoring with a differential test; whatever the checks
        report on such a change is a false alarm)
       tools/round_setup.py <base dir> --teardown      (removes every worktree and the base dir)"""
import glob
import json
import os
import shutil
import subprocess
import sys

HERE = os.path.dirname(os.path.dirname(os.path.abspath(__file__)))
REPO = "/repo"

PROMPT = """You are working in a scratch git worktree of the Python/Cython library Crunch-io/catii located at {wt} (a NumPy library for sparse N-dimensional categorical data: an inverted index `iindex`, contingency cubes `ccube` (index based) and `xcube` (array based) with aggregate functions ffuncs/xfuncs, Cython sorted-set kernels in set_operations.pyx, and the INDX binary file format in indxio.py). Work ONLY inside {wt} and write your deliverables to {out}/. Never touch /repo, /verif or any other directory, and do not read anything under /verif.

Setup facts:
- Import the worktree's code with `PYTHONPATH={wt}/src /venv/bin/python ...` (check `catii.__file__` points into the worktree).
- The compiled extension src/catii/set_operations*.so is already in the worktree. If (and only if) you edit set_operations.pyx, rebuild with: `cd {wt} && CYTHONIZE_SETUP_PY=1 /venv/bin/python setup.py build_ext --inplace && rm -rf build`.
- Test suite: `cd {wt} && PYTHONPATH={wt}/src /venv/bin/python -m pytest -q -p no:cacheprovider --timeout=900 tests benchmarks 2>&1 | tail -15` (about 3-6 minutes). A handful of tests fail on the unchanged tree; that is the baseline. The tests under benchmarks/ xfail on a wall-clock threshold, so their pass/xfail outcome flips with machine load: ignore those flips, but every test under tests/ must keep exactly its outcome.
- Do NOT use `git stash` (the stash is shared between all worktrees of this repository and other people work in sibling worktrees). To switch between patched and unpatched: `git diff -- src/catii > {out}/p.diff; git apply -R {out}/p.diff; ...; git apply {out}/p.diff`.

Goal: read {out}/PROPERTY.txt (a behavioural property of the library). Produce ONE realistic source change to the library (files under src/catii/ only) - the kind of regression a maintainer could plausibly introduce while refactoring, optimising or "simplifying" - that BREAKS this property while the code still imports/compiles and every test of the existing suite has exactly the same outcome as before. Strongly prefer a change that needs something specific to manifest (an unusual input, a particular multi-step sequence of operations, a specific configuration such as pooled evaluation or a scalar weight or several fact columns, a crash/fault at a particular point, or two cooperating sites that each look fine alone) rather than one that ordinary use would expose at once. Keep the patch small (a few lines) and plausible; no dead code, no comments announcing the bug.
{angle}
Earlier contributors already proposed the following changes for this property; propose something DIFFERENT from all of them - another function, another clause of the property, or another mechanism (do not re-use one of their ideas in another place):
{earlier}

Deliverables in {out}/:
1. patch.diff - output of `git -C {wt} diff -- src/catii` (source only; no tests).
2. demo.py - a small standalone program using only the public API (run as `PYTHONPATH=<src dir> /venv/bin/python demo.py`) that exits 0 on the unchanged tree and exits non-zero (failed assertion with a clear message) with the patch applied, demonstrating the violation of the property.
3. notes.md - which clause of the property breaks, what is needed for it to manifest, and the commands you ran with their results: the test-suite summary line and the list of failing tests before and after your change (they must be identical), and the demo's result before and after.

Verify everything yourself: run the full suite on the unchanged worktree first (save the failing-test list), apply your change, run it again and diff the lists; run demo.py both ways. Leave the worktree with the patch applied. In your final answer summarise the change in 3-5 lines.
"""


PROMPT_BENIGN = """You are working in a scratch git worktree of the Python/Cython library Crunch-io/catii located at {wt} (a NumPy library for sparse N-dimensional categorical data: an inverted index `iindex`, contingency cubes `ccube` (index based) and `xcube` (array based) with aggregate functions ffuncs/xfuncs, Cython sorted-set kernels in set_operations.pyx, and the INDX binary file format in indxio.py). Work ONLY inside {wt} and write your deliverables to {out}/. Never touch /repo, /verif or any other directory, and do not read anything under /verif.

Setup facts:
- Import the worktree's code with `PYTHONPATH={wt}/src /venv/bin/python ...` (check `catii.__file__` points into the worktree).
- The compiled extension src/catii/set_operations*.so is already in the worktree. If (and only if) you edit set_operations.pyx, rebuild with: `cd {wt} && CYTHONIZE_SETUP_PY=1 /venv/bin/python setup.py build_ext --inplace && rm -rf build`.
- Test suite: `cd {wt} && PYTHONPATH={wt}/src /venv/bin/python -m pytest -q -p no:cacheprovider --timeout=900 tests 2>&1 | tail -15` (a few seconds; 5 tests fail on the unchanged tree - that is the baseline, and they must stay exactly the same).
- Do NOT use `git stash` (the stash is shared between all worktrees of this repository and other people work in sibling worktrees).

Goal: read {out}/PROPERTY.txt (a behavioural property of the library). Produce ONE realistic, NON-TRIVIAL source change to the code this property is anchored in (files under src/catii/ only) that a maintainer would merge as a refactoring, clean-up, modernisation or optimisation and that is BEHAVIOUR-PRESERVING: the property - and every other observable behaviour of the public API - must hold exactly as before, for ALL inputs, including the unusual ones (empty inputs, a single category, negative or huge ids, several fact columns, scalar weights, three or more dimensions, pooled evaluation, strided arrays ...). Think of: restructuring a function (early returns, merged or split branches, helper extraction or inlining), renaming locals, replacing one NumPy / Python idiom by a provably equivalent one, a CORRECT fast path, correctly invalidated caching, hoisting invariant work out of a loop, rewriting a loop as a comprehension or the reverse, changing the order of independent statements, tightening types where that is safe. Make it the size of a real commit (10-60 changed lines), touching the core logic rather than comments or docstrings. {angle}

Be your own sceptic: after writing the change, try hard to break it (that is what the next reviewer will do). If you find an input for which behaviour differs, fix the change or choose another one - a change that is subtly wrong is useless here.

Deliverables in {out}/:
1. patch.diff - output of `git -C {wt} diff -- src/catii` (source only; no tests).
2. equiv.py - a standalone differential test (run as `/venv/bin/python equiv.py <src dir A> <src dir B>`): it loads the package from each of the two source directories in SEPARATE subprocesses (or via importlib with distinct module names), drives the changed code through the public API with many generated inputs (hundreds to thousands, seeded, covering the unusual cases above), and exits 0 only if every observable result (values, dtypes, shapes, exceptions raised) is identical. It must exit 0 for (unchanged tree, your tree).
3. notes.md - what you changed and why it is equivalent (the argument, not just the test), what you tried in order to break it, and the commands you ran with their results (tests before / after, equiv.py).

To get an unchanged copy for equiv.py: `git -C {wt} worktree list` shows the main checkout is not yours to use; instead do `mkdir -p {out}/base && git -C {wt} archive HEAD src | tar -x -C {out}/base` and copy the built extension: `cp {wt}/src/catii/set_operations*.so {out}/base/src/catii/` (the .so matches the unchanged .pyx).

Leave the worktree with the patch applied. In your final answer summarise the change in 3-5 lines.
"""


def props():
    out = {}
    for l in open(os.path.join(HERE, "properties.jsonl")):
        d = json.loads(l)
        out[d["id"]] = d
    return out


def property_text(d):
    return "%s: %s\n\nStatement: %s\n\nQuantifier (over %s): %s\n\nWhy the existing tests cannot settle it: %s\n\nCode it is anchored in: %s\nMechanisms: %s\nObserve at: %s\n" % (
        d["id"], d["title"], d["statement"], ", ".join(d["quantifier"]["over"]), d["quantifier"]["text"], d["why_tests_cant"], ", ".join(d["anchors"]["files"]),
        "; ".join("%s (%s)" % (m["name"], m["where"]) for m in d["anchors"]["mechanism"]), ", ".join(d["anchors"]["observe_at"]))


def main():
    base = sys.argv[1]
    if "--teardown" in sys.argv:
        for wt in sorted(glob.glob(os.path.join(base, "C[0-9][0-9]"))):
            subprocess.run(["git", "-C", REPO, "worktree", "remove", "--force", wt], capture_output=True)
        subprocess.run(["git", "-C", REPO, "worktree", "prune"])
        shutil.rmtree(base, ignore_errors=True)
        print(subprocess.run(["git", "-C", REPO, "worktree", "list"], capture_output=True, text=True).stdout)
        return
    angle = ""
    args = sys.argv[2:]
    benign = "--benign" in args
    if benign:
        args.remove("--benign")
    if "--angle" in args:
        i = args.index("--angle")
        angle = "\n" + args[i + 1] + "\n"
        del args[i:i + 2]
    P = props()
    ids = args or sorted(P)
    os.makedirs(os.path.join(base, "prompts"), exist_ok=True)
    so = [f for f in os.listdir(os.path.join(REPO, "src", "catii")) if f.endswith(".so")]
    for pid in ids:
        wt = os.path.join(base, pid)
        out = wt + "_out"
        subprocess.run(["git", "-C", REPO, "worktree", "add", "--detach", wt, "HEAD"], check=True, capture_output=True)
        for f in so:
            shutil.copy(os.path.join(REPO, "src", "catii", f), os.path.join(wt, "src", "catii", f))
        os.makedirs(out, exist_ok=True)
        with open(os.path.join(out, "PROPERTY.txt"), "w") as f:
            f.write(property_text(P[pid]))
        earlier = []
        for m in sorted(glob.glob(os.path.join(HERE, "seeded", pid + "*", "meta.json"))):
            earlier.append(json.load(open(m))["breaks"])
        if benign:
            # earlier refactorings kept for this property (first line of their notes): ask for a different one
            prev = []
            for nf in sorted(glob.glob(os.path.join(HERE, "selftest", "twins", "benign", pid + "*", "notes.md"))):
                first = open(nf).readline().strip().lstrip("# ").strip()
                if first:
                    prev.append(first)
            extra = angle.strip()
            if prev:
                extra += " An earlier contributor already delivered this refactoring for the same property - choose a DIFFERENT function or a different kind of change: " + "; ".join('"%s"' % x for x in prev) + "."
            txt = PROMPT_BENIGN.format(wt=wt, out=out, angle=extra)
        else:
            txt = PROMPT.format(wt=wt, out=out, angle=angle, earlier="\n".join('  %d. "%s"' % (i + 1, e) for i, e in enumerate(earlier)) or "  (none yet)")
        with open(os.path.join(base, "prompts", pid + ".txt"), "w") as f:
            f.write(txt)
    print("prepared %d worktrees under %s" % (len(ids), base))


if __name__ == "__main__":
    main()
