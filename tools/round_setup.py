#!/usr/bin/env python3
"""Prepare one round of adversarial sub-agent work (not part of any check).

For every property creates a scratch git worktree of /repo under <base>/<Cxx> (outside /repo and /verif), an output
directory <base>/<Cxx>_out with PROPERTY.txt (the property's text only - nothing from /verif), and a prompt file
<base>/prompts/<Cxx>.txt that lists the ideas already kept under seeded/ for that property so the agent proposes
something different.

usage: tools/round_setup.py <base dir, e.g. /tmp/wt5> [--angle "<extra steer>"] [Cxx ...]
       tools/round_setup.py <base dir> --teardown      (removes every worktree and the base dir)"""
import glob
import json
import os
import shutil
import subprocess
import sys

HERE = os.path.dirname(os.path.dirname(os.path.abspath(__file__)))
REPO = "/repo"

PROMPT = """You are working in a scratch git worktree of the Python/Cython library Crunch-io/catii located at {wt} (a NumPy library for sparse N-dimensional categorical data: an inverted index `iindex`, contingency cubes `ccube` (index based) and `xcube` (array based) with aggregate functions ffuncs/xfuncs, Cython sorted-set kernels in set_operations.pyx, and the INDX binary file format in indxio.py). Work ONLY inside {wt} and write your deliverables to {out}/. Never touch /repo, /verif or any other directory, and do not read anything under /verif.

Setup facts:
- Import the worktree's code with `PYTHONPATH={wt}/src /venv/bin/python ...` (check `catii.__file__` points into the worktree).
- The compiled extension src/catii/set_operations*.so is already in the worktree. If (and only if) you edit set_operations.pyx, rebuild with: `cd {wt} && CYTHONIZE_SETUP_PY=1 /venv/bin/python setup.py build_ext --inplace && rm -rf build`.
- Test suite: `cd {wt} && PYTHONPATH={wt}/src /venv/bin/python -m pytest -q -p no:cacheprovider --timeout=900 tests benchmarks 2>&1 | tail -15` (about 3-6 minutes). A handful of tests fail on the unchanged tree; that is the baseline. The tests under benchmarks/ xfail on a wall-clock threshold, so their pass/xfail outcome flips with machine load: ignore those flips, but every test under tests/ must keep exactly its outcome.
- Do NOT use `git stash` (the stash is shared between all worktrees of this repository and other people work in sibling worktrees). To switch between patched and unpatched: `git diff -- src/catii > {out}/p.diff; git apply -R {out}/p.diff; ...; git apply {out}/p.diff`.

Goal: read {out}/PROPERTY.txt (a behavioural property of the library). Produce ONE realistic source change to the library (files under src/catii/ only) - the kind of regression a maintainer could plausibly introduce while refactoring, optimising or "simplifying" - that BREAKS this property while the code still imports/compiles and every test of the existing suite has exactly the same outcome as before. Strongly prefer a change that needs something specific to manifest (an unusual input, a particular multi-step sequence of operations, a specific configuration such as pooled evaluation or a scalar weight or several fact columns, a crash/fault at a particular point, or two cooperating sites that each look fine alone) rather than one that ordinary use would expose at once. Keep the patch small (a few lines) and plausible; no dead code, no comments announcing the bug.
{angle}
Earlier contributors already proposed the following changes for this property; propose something DIFFERENT from all of them - another function, another clause of the property, or another mechanism (do not re-use one of their ideas in another place):
{earlier}

Deliverables in {out}/:
1. patch.diff - output of `git -C {wt} diff -- src/catii` (source only; no tests).
2. demo.py - a small standalone program using only the public API (run as `PYTHONPATH=<src dir> /venv/bin/python demo.py`) that exits 0 on the unchanged tree and exits non-zero (failed assertion with a clear message) with the patch applied, demonstrating the violation of the property.
3. notes.md - which clause of the property breaks, what is needed for it to manifest, and the commands you ran with their results: the test-suite summary line and the list of failing tests before and after your change (they must be identical), and the demo's result before and after.

Verify everything yourself: run the full suite on the unchanged worktree first (save the failing-test list), apply your change, run it again and diff the lists; run demo.py both ways. Leave the worktree with the patch applied. In your final answer summarise the change in 3-5 lines.
"""


def props():
    out = {}
    for l in open(os.path.join(HERE, "properties.jsonl")):
        d = json.loads(l)
        out[d["id"]] = d
    return out


def property_text(d):
    return "%s: %s\n\nStatement: %s\n\nQuantifier (over %s): %s\n\nWhy the existing tests cannot settle it: %s\n\nCode it is anchored in: %s\nMechanisms: %s\nObserve at: %s\n" % (
        d["id"], d["title"], d["statement"], ", ".join(d["quantifier"]["over"]), d["quantifier"]["text"], d["why_tests_cant"], ", ".join(d["anchors"]["files"]),
        "; ".join("%s (%s)" % (m["name"], m["where"]) for m in d["anchors"]["mechanism"]), ", ".join(d["anchors"]["observe_at"]))


def main():
    base = sys.argv[1]
    if "--teardown" in sys.argv:
        for wt in sorted(glob.glob(os.path.join(base, "C[0-9][0-9]"))):
            subprocess.run(["git", "-C", REPO, "worktree", "remove", "--force", wt], capture_output=True)
        subprocess.run(["git", "-C", REPO, "worktree", "prune"])
        shutil.rmtree(base, ignore_errors=True)
        print(subprocess.run(["git", "-C", REPO, "worktree", "list"], capture_output=True, text=True).stdout)
        return
    angle = ""
    args = sys.argv[2:]
    if "--angle" in args:
        i = args.index("--angle")
        angle = "\n" + args[i + 1] + "\n"
        del args[i:i + 2]
    P = props()
    ids = args or sorted(P)
    os.makedirs(os.path.join(base, "prompts"), exist_ok=True)
    so = [f for f in os.listdir(os.path.join(REPO, "src", "catii")) if f.endswith(".so")]
    for pid in ids:
        wt = os.path.join(base, pid)
        out = wt + "_out"
        subprocess.run(["git", "-C", REPO, "worktree", "add", "--detach", wt, "HEAD"], check=True, capture_output=True)
        for f in so:
            shutil.copy(os.path.join(REPO, "src", "catii", f), os.path.join(wt, "src", "catii", f))
        os.makedirs(out, exist_ok=True)
        with open(os.path.join(out, "PROPERTY.txt"), "w") as f:
            f.write(property_text(P[pid]))
        earlier = []
        for m in sorted(glob.glob(os.path.join(HERE, "seeded", pid + "*", "meta.json"))):
            earlier.append(json.load(open(m))["breaks"])
        txt = PROMPT.format(wt=wt, out=out, angle=angle, earlier="\n".join('  %d. "%s"' % (i + 1, e) for i, e in enumerate(earlier)) or "  (none yet)")
        with open(os.path.join(base, "prompts", pid + ".txt"), "w") as f:
            f.write(txt)
    print("prepared %d worktrees under %s" % (len(ids), base))


if __name__ == "__main__":
    main()
