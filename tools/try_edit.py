#!/usr/bin/env python3
"""Run every quick check against a scratch copy of /repo's sources with one text edit (a probe mutant).
usage: tools/try_edit.py <file under src/catii> <old text> <new text> [Cxx ...]   (TRY_COUNT=<k> picks the k-th occurrence, 0-based, of an ambiguous anchor)"""
import os
import sys
from concurrent.futures import ThreadPoolExecutor

HERE = os.path.dirname(os.path.dirname(os.path.abspath(__file__)))
sys.path.insert(0, HERE)
from selftest.mutate import run_variant

f, old, new = sys.argv[1:4]
old, new = old.encode().decode("unicode_escape"), new.encode().decode("unicode_escape")
props = sys.argv[4:] or ["C%02d" % i for i in range(1, 21)]
jobs = [{"prop": p, "name": "probe", "file": f, "old": old, "new": new, "expect": "fire", **({"count": int(os.environ["TRY_COUNT"])} if os.environ.get("TRY_COUNT") else {})} for p in props]
with ThreadPoolExecutor(16) as ex:
    res = list(ex.map(run_variant, jobs))
fired = []
for j, r in zip(jobs, res):
    if r.get("why"):
        print("edit failed:", r["why"])
        sys.exit(2)
    if r["rc"] == 1:
        fired.append(j["prop"])
        lines = [l for l in r["out"].splitlines() if "VIOLATED" in l][:2]
        print(j["prop"], "VIOLATION", *[l.strip()[:230] for l in lines], sep="\n    ")
    elif r["rc"] == 2:
        lines = [l for l in r["out"].splitlines() if "INCOMPLETE" in l or "ERROR" in l][:1]
        print(j["prop"], "undecided", *[l.strip()[:200] for l in lines], sep="\n    ")
print("FIRED:", " ".join(fired) or "none")
