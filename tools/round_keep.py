#!/usr/bin/env python3
"""Keep every confirmed change of a sub-agent round (not part of any check).

usage: tools/round_keep.py <base dir, e.g. /tmp/wt6> <suffix, e.g. f> <texts.json> [--origin-extra "..."]
       tools/round_keep.py <base dir> --confirm          (runs tools/confirm_seed.py for every <base>/Cxx_out in 4 parallel lanes)
       tools/round_keep.py <base dir> --try              (tools/try_patch.py on every patch, one line per property)

texts.json: {"C01": ["what breaks", "what it needs to manifest"], ...}"""
import json
import os
import re
import subprocess
import sys
from concurrent.futures import ThreadPoolExecutor

HERE = os.path.dirname(os.path.dirname(os.path.abspath(__file__)))


def props(base):
    return sorted(d[:3] for d in os.listdir(base) if re.match(r"^C\d\d_out$", d) and os.path.exists(os.path.join(base, d, "patch.diff")))


def main():
    base = sys.argv[1]
    if "--confirm" in sys.argv:
        head = subprocess.run(["git", "-C", "/repo", "rev-parse", "HEAD"], capture_output=True, text=True).stdout.strip()
        os.makedirs(os.path.join(base, "confirm"), exist_ok=True)

        def one(p):
            out = os.path.join(base, "confirm", p + ".json")
            r = subprocess.run([sys.executable, os.path.join(HERE, "tools", "confirm_seed.py"), os.path.join(base, p + "_out", "patch.diff"), os.path.join(base, p + "_out", "demo.py"), head], capture_output=True, text=True)
            open(out, "w").write(r.stdout)
            try:
                rep = json.loads(r.stdout.rsplit("done", 1)[0])
                return p, rep.get("confirmed"), rep.get("suite", {}).get("outcome_changes"), rep.get("error", "")[:120]
            except Exception as e:
                return p, None, None, str(e)[:100]
        with ThreadPoolExecutor(4) as ex:
            for r in ex.map(one, props(base)):
                print(*r, flush=True)
        return
    if "--try" in sys.argv:
        for p in props(base):
            r = subprocess.run([sys.executable, os.path.join(HERE, "tools", "try_patch.py"), os.path.join(base, p + "_out", "patch.diff")], capture_output=True, text=True)
            out = r.stdout + r.stderr
            m = re.search(r"^FIRED: (.*)$", out, re.M)
            und = sorted(set(re.findall(r"^(C\d\d) undecided", out, re.M)))
            rules = sorted(set(re.findall(r"VIOLATED (R-C\d\d-[\w-]+)", out)))
            print("%s fired: %-28s undecided: %-20s %s" % (p, m.group(1) if m else "?", " ".join(und), " ".join(rules)), flush=True)
        return
    suffix, texts = sys.argv[2], json.load(open(sys.argv[3]))
    extra = sys.argv[sys.argv.index("--origin-extra") + 1] if "--origin-extra" in sys.argv else ""
    for p in props(base):
        if p not in texts:
            print(p, "no text, skipped")
            continue
        cmd = [sys.executable, os.path.join(HERE, "tools", "keep_seed.py"), p + suffix, os.path.join(base, p + "_out"), os.path.join(base, "confirm", p + ".json"), "--breaks", texts[p][0], "--needs", texts[p][1]]
        if extra:
            cmd += ["--origin-extra", extra]
        r = subprocess.run(cmd, capture_output=True, text=True)
        print((r.stdout.strip() or r.stderr.strip())[-220:], flush=True)


if __name__ == "__main__":
    main()
