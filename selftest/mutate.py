"""Self-test support: run a check against a scratch copy of /repo's sources with one edit.

A variant is {"name", "prop", "file", "old", "new", "expect": "fire"|"silent", "rule": optional,
"count": optional occurrence index}.  The scratch copy lives under $TMPDIR and is removed at once.
The edit must leave the file parseable (checked).  Used by selftest/run.py and by the
thorough tier of the checks.
"""
import ast
import os
import shutil
import subprocess
import sys
import tempfile

VERIF = os.path.dirname(os.path.dirname(os.path.abspath(__file__)))
REPO = os.environ.get("CATII_REPO", "/repo")


def make_copy(edits):
    d = tempfile.mkdtemp(prefix="catii-sa-")
    dst = os.path.join(d, "src", "catii")
    os.makedirs(dst)
    src = os.path.join(REPO, "src", "catii")
    for fn in os.listdir(src):
        if fn.endswith((".py", ".pyx")):
            shutil.copy(os.path.join(src, fn), os.path.join(dst, fn))
    apply_edits(d, edits)
    return d


def apply_edits(d, edits):
    dst = os.path.join(d, "src", "catii")
    for e in edits:
        # only ever the scratch copy: an absolute path or a path with directories is reduced to its file name
        p = os.path.join(dst, os.path.basename(e["file"]))
        with open(p) as f:
            s = f.read()
        old, new = e["old"], e["new"]
        n = s.count(old)
        if n == 0:
            shutil.rmtree(d)
            raise ValueError("edit anchor not found in %s: %r" % (e["file"], old[:60]))
        idx = e.get("count")
        if e.get("all"):
            import re
            s = re.sub(r"\b%s\b" % re.escape(old), new, s) if e.get("word") else s.replace(old, new)
        elif idx is None:
            if n != 1:
                shutil.rmtree(d)
                raise ValueError("edit anchor ambiguous (%d) in %s: %r" % (n, e["file"], old[:60]))
            s = s.replace(old, new)
        else:
            pos = -1
            for _ in range(idx + 1):
                pos = s.index(old, pos + 1)
            s = s[:pos] + new + s[pos + len(old):]
        if p.endswith(".py"):
            try:
                ast.parse(s)
            except SyntaxError as ex:
                shutil.rmtree(d)
                raise ValueError("variant does not parse: %s" % ex)
        with open(p, "w") as f:
            f.write(s)


def apply_patch(d, patch):
    """Apply a unified diff (paths a/src/catii/...) to the scratch copy with patch(1)."""
    p = subprocess.run(["patch", "-p1", "-s", "-d", d, "-i", os.path.join(VERIF, patch)], capture_output=True, text=True)
    if p.returncode != 0:
        shutil.rmtree(d, ignore_errors=True)
        raise ValueError("patch %s does not apply: %s" % (patch, (p.stdout + p.stderr)[-200:]))


def run_variant(v, tier="quick"):
    edits = v.get("edits") or ([] if v.get("patch") else [v])
    try:
        d = make_copy(edits)
        if v.get("patch"):
            apply_patch(d, v["patch"])
        if v.get("post_edits"):  # edits of the PATCHED text (mutants of a refactored form)
            apply_edits(d, v["post_edits"])
    except ValueError as e:
        return {"name": v["name"], "ok": False, "rc": None, "why": str(e), "out": ""}
    try:
        env = dict(os.environ)
        env["CATII_REPO"] = d
        env["VERIF_EVIDENCE_DIR"] = os.path.join(d, "evidence")
        env["VERIF_NO_SELFTEST"] = "1"
        prop = v["prop"].lower()
        p = subprocess.run(
            ["/venv/bin/python", os.path.join(VERIF, "checks", prop + ".py"), "--tier", tier],
            capture_output=True, text=True, env=env, cwd=VERIF, timeout=1500,
        )
        out = p.stdout + p.stderr
        rc = p.returncode
    except subprocess.TimeoutExpired:
        out, rc = "TIMEOUT", None
    finally:
        shutil.rmtree(d, ignore_errors=True)
    expect = v.get("expect", "fire")
    if expect == "fire":
        ok = rc == 1 and "VIOLATION property=%s" % v["prop"] in out
        if ok and v.get("rule"):
            ok = v["rule"] in out
    elif expect == "silent":
        ok = rc == 0
    elif expect == "undecided":  # the check notices that it cannot decide (exit 2), and claims no violation
        ok = rc == 2 and "VIOLATION" not in out
    elif expect == "not-violated":  # PROVED or UNDECIDED, never VIOLATED
        ok = rc in (0, 2) and "VIOLATION" not in out
    else:
        ok = False
    return {"name": v["name"], "ok": ok, "rc": rc, "expect": expect, "out": out}


if __name__ == "__main__":
    import json

    v = json.loads(sys.argv[1])
    r = run_variant(v)
    print(r["out"])
    print("ok=%s rc=%s" % (r["ok"], r["rc"]))
