#!/venv/bin/python
"""Run the seeded-variant corpus (all or one property) on 16 cores; exit 0 iff every
variant behaves as expected.  Usage: selftest/run.py [C19 C12 ...] [-v]"""
import os
import sys
from concurrent.futures import ThreadPoolExecutor

sys.path.insert(0, os.path.dirname(os.path.dirname(os.path.abspath(__file__))))
from selftest.mutate import run_variant
from selftest.variants import V


def _what(g):
    return {"patch": g["patch"]} if "patch" in g else {"edits": g["edits"]}


def run(props=None, verbose=False, tier="quick", quiet=False, with_global=False):
    vs = [v for v in V if not props or v["prop"] in props]
    if with_global and props:
        # the maintenance-style global twins, against these properties' checks: never VIOLATED
        from selftest.variants import G
        for g in G:
            for p in sorted(props):
                vs.append(dict({"prop": p, "name": "global twin: " + g["name"], "expect": "silent" if g["strict"] else "not-violated"}, **_what(g)))
    with ThreadPoolExecutor(16) as ex:
        res = list(ex.map(lambda v: run_variant(v, tier), vs))
    bad = 0
    for v, r in zip(vs, res):
        tag = "ok  " if r["ok"] else "FAIL"
        if not r["ok"]:
            bad += 1
        if quiet and r["ok"]:
            continue
        print("%s %s %-6s rc=%s  %s" % (tag, v["prop"], v["expect"], r["rc"], v["name"]))
        if (not r["ok"] or verbose):
            tail = "\n".join(l for l in r["out"].splitlines() if l.strip())
            print("     " + "\n     ".join(tail.splitlines()[-12:]))
            if r.get("why"):
                print("     " + r["why"])
    if not quiet:
        print("%d variants, %d unexpected" % (len(vs), bad))
    return bad, vs, res


def run_global():
    """Every check on every global benign twin: none may report a VIOLATION."""
    from selftest.variants import G
    jobs = []
    for g in G:
        for i in range(1, 21):
            jobs.append(dict({"prop": "C%02d" % i, "name": g["name"], "expect": "silent" if g["strict"] else "not-violated"}, **_what(g)))
    with ThreadPoolExecutor(16) as ex:
        res = list(ex.map(lambda v: run_variant(v, "quick"), jobs))
    bad = 0
    und = 0
    for v, r in zip(jobs, res):
        if r["rc"] == 2:
            und += 1
        if not r["ok"]:
            bad += 1
            print("FAIL %s rc=%s on twin: %s" % (v["prop"], r["rc"], v["name"]))
            tail = [l for l in r["out"].splitlines() if l.strip()][-4:]
            print("     " + "\n     ".join(x[:260] for x in tail))
        elif r["rc"] == 2:
            print("note %s UNDECIDED on twin: %s" % (v["prop"], v["name"]))
    print("%d twin x check runs, %d unexpected, %d undecided" % (len(jobs), bad, und))
    return bad


if __name__ == "__main__":
    if "--global" in sys.argv:
        sys.exit(1 if run_global() else 0)
    args = [a for a in sys.argv[1:] if not a.startswith("-")]
    bad, _, _ = run(set(args) or None, "-v" in sys.argv)
    sys.exit(1 if bad else 0)
