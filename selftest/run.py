#!/venv/bin/python
"""Run the seeded-variant corpus (all or one property) on 16 cores; exit 0 iff every
variant behaves as expected.  Usage: selftest/run.py [C19 C12 ...] [-v]"""
import os
import sys
from concurrent.futures import ThreadPoolExecutor

sys.path.insert(0, os.path.dirname(os.path.dirname(os.path.abspath(__file__))))
from selftest.mutate import run_variant
from selftest.variants import V


def run(props=None, verbose=False, tier="quick", quiet=False):
    vs = [v for v in V if not props or v["prop"] in props]
    with ThreadPoolExecutor(16) as ex:
        res = list(ex.map(lambda v: run_variant(v, tier), vs))
    bad = 0
    for v, r in zip(vs, res):
        tag = "ok  " if r["ok"] else "FAIL"
        if not r["ok"]:
            bad += 1
        if quiet and r["ok"]:
            continue
        print("%s %s %-6s rc=%s  %s" % (tag, v["prop"], v["expect"], r["rc"], v["name"]))
        if (not r["ok"] or verbose):
            tail = "\n".join(l for l in r["out"].splitlines() if l.strip())
            print("     " + "\n     ".join(tail.splitlines()[-12:]))
            if r.get("why"):
                print("     " + r["why"])
    if not quiet:
        print("%d variants, %d unexpected" % (len(vs), bad))
    return bad, vs, res


if __name__ == "__main__":
    args = [a for a in sys.argv[1:] if not a.startswith("-")]
    bad, _, _ = run(set(args) or None, "-v" in sys.argv)
    sys.exit(1 if bad else 0)
