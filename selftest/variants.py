"""Seeded variants (mutants that must FIRE) and benign twins (that must stay SILENT),
per property.  Each edit is applied to a scratch copy of the sources (selftest/mutate.py)."""

V = []


def fire(prop, name, file, old, new, rule=None, count=None):
    V.append({"prop": prop, "name": name, "file": file, "old": old, "new": new, "expect": "fire", "rule": rule, "count": count})


def silent(prop, name, file, old, new, count=None, expect="silent"):
    V.append({"prop": prop, "name": name, "file": file, "old": old, "new": new, "expect": expect, "count": count})


# ---------------------------------------------------------------- C19
I = "iindexes.py"
fire("C19", "uint16 rung >= -> >", I, "elif maxval >= 2 ** 8:", "elif maxval > 2 ** 8:", "R-C19-contain")
fire("C19", "uint32 rung >= -> >", I, "elif maxval >= 2 ** 16:", "elif maxval > 2 ** 16:", "R-C19-contain")
fire("C19", "uint64 rung >= -> >", I, "if maxval >= 2 ** 32:", "if maxval > 2 ** 32:", "R-C19-contain")
fire("C19", "2**8 -> 2**7 (wider than needed)", I, "elif maxval >= 2 ** 8:", "elif maxval >= 2 ** 7:", "R-C19-minimal")
fire("C19", "drop maxval>2**31-1 rung", I, "        elif maxval > 2 ** 31 - 1:\n            dtype = numpy.int64\n", "", "R-C19-contain")
fire("C19", "int8 boundary off by one", I, "elif minval < -(2 ** 7):", "elif minval < -(2 ** 7) - 1:", "R-C19-contain")
fire("C19", "signed for non-negative", I, "        else:\n            dtype = numpy.uint8", "        else:\n            dtype = numpy.int16", "R-C19-sign")
fire("C19", "swap int16/int32 rungs", I, "elif minval < -(2 ** 15):\n            dtype = numpy.int32", "elif minval < -(2 ** 15):\n            dtype = numpy.int16", "R-C19-contain")
fire("C19", "negative-max convention dropped", I, "    if maxval < 0 and minval == 0:\n        minval = maxval\n", "", None)
silent("C19", "twin: iinfo constants", I, "elif maxval > 2 ** 7 - 1:", "elif maxval > numpy.iinfo(numpy.int8).max:")
silent("C19", "twin: reorder equivalent comparison", I, "if maxval >= 2 ** 32:", "if 2 ** 32 <= maxval:")
silent("C19", "twin: shift constants", I, "elif maxval >= 2 ** 16:", "elif maxval >= 1 << 16:")
silent("C19", "twin: not/<", I, "elif maxval >= 2 ** 8:", "elif not maxval < 256:")

# ---------------------------------------------------------------- C12 / C11 / C10
X = "indxio.py"
fire("C12", "mmap whole file instead of header+size", X, "f.fileno(), buffer_length, flags", "f.fileno(), 0, flags", "R-C12-a")
fire("C12", "swallow errors in load", X, "        buffer_size = struct.unpack(\"<Q\", f.read(8))[0]\n", "        try:\n            buffer_size = struct.unpack(\"<Q\", f.read(8))[0]\n        except Exception:\n            return {}, 0, None\n", None)
fire("C12", "version check dropped", X, "        if version != IndxIO.VERSION:\n            raise RuntimeError(\"Unexpected indexed format %s\" % version)\n", "", "R-C12-a")
fire("C12", "read lengths with f.read after header", X, "        word_size = struct.unpack_from(\"<B\", buf, offset=offset)[0]", "        f.seek(offset)\n        word_size = struct.unpack(\"<B\", f.read(1))[0]", None)
fire("C12", "size word omits the lengths block", X, "            + len(lengths) * dtype.itemsize  # rowid lengths\n", "", "R-C11-b")
fire("C12", "mmap length off by header", X, "buffer_length = offset + buffer_size", "buffer_length = buffer_size", "R-C12-a")
silent("C12", "twin: header constant hoisted", X, "        offset = 16\n", "        HEADER = 16\n        offset = HEADER\n")
silent("C12", "twin: compare magic with ==", X, "        if f.read(4) != IndxIO.INDEXED_MAGIC:\n            raise RuntimeError(\"Unexpected header\")", "        if f.read(4) == IndxIO.INDEXED_MAGIC:\n            pass\n        else:\n            raise RuntimeError(\"Unexpected header\")")

V.append({"prop": "C11", "name": "symmetric change of entry-count width (round trip blind)", "expect": "fire", "rule": "R-C11-a", "edits": [
    {"file": X, "old": "f.write(struct.pack(\"<L\", len(index)))", "new": "f.write(struct.pack(\"<Q\", len(index)))"},
    {"file": X, "old": "            + 4  # index length\n", "new": "            + 8  # index length\n"},
    {"file": X, "old": "index_length = struct.unpack_from(\"<L\", buf, offset=offset)[0]\n        offset += 4", "new": "index_length = struct.unpack_from(\"<Q\", buf, offset=offset)[0]\n        offset += 8"},
]})
fire("C11", "sum(lengths) back to NumPy scalar", X, "int(lengths.sum(dtype=numpy.uint64)) * dtype.itemsize", "sum(lengths) * dtype.itemsize", "R-C11-c")
fire("C11", "cursor advanced by NumPy scalar again", X, "zip(lengths.tolist(), all_coords)", "zip(lengths, all_coords)", "R-C11-c")
fire("C11", "big-endian common", X, "            return \"<Q\"\n", "            return \">Q\"\n", "R-C10-c")
fire("C11", "coordinates written before common", X, "        f.write(struct.pack(ind_format_string, common))\n\n        # Write index\n        index.tofile(f)\n", "        index.tofile(f)\n        f.write(struct.pack(ind_format_string, common))\n", "R-C11-a")
fire("C11", "reader offset skips a byte", X, "        index_word_size = struct.unpack_from(\"<B\", buf, offset=offset)[0]\n        ind_format_string = IndxIO.format(index_word_size)\n        offset += 1", "        index_word_size = struct.unpack_from(\"<B\", buf, offset=offset)[0]\n        ind_format_string = IndxIO.format(index_word_size)\n        offset += 2", "R-C10-b")
fire("C11", "seek back to patch size", X, "        if f.tell() != 16 + buffer_size:", "        f.seek(8)\n        if f.tell() != 16 + buffer_size:", "R-C11-e")
fire("C11", "word size not from fit_dtype", X, "        index_word_size = index_dtype.itemsize\n", "        index_dtype = numpy.dtype(numpy.uint64)\n        index_word_size = index_dtype.itemsize\n", "R-C11-d")
silent("C11", "twin: sum via tolist", X, "int(lengths.sum(dtype=numpy.uint64)) * dtype.itemsize", "sum(lengths.tolist()) * dtype.itemsize", expect="not-violated")
silent("C11", "twin: comments/blank lines moved", X, "        # Write index dimensions\n", "\n\n        # dims\n")

fire("C10", "common dropped from word-size choice", X, "max(numpy.max(index), common) if len(index) != 0 else common", "numpy.max(index) if len(index) != 0 else common", "R-C10-e")
fire("C10", "reader slices ptr:length", X, "rowids = rowid_lists[ptr : ptr + length]", "rowids = rowid_lists[ptr : length]", "R-C10-a")
fire("C10", "reader keeps file dtype", X, "                rowids = rowids.astype(numpy.uint32)\n", "                pass\n", "R-C10-d")
fire("C10", "keys left as NumPy rows", X, "all_coords = [tuple(row) for row in index.tolist()]", "all_coords = [tuple(row) for row in index]", "R-C10-d")
fire("C10", "dtype helper wrong for 2", X, "            return numpy.dtype(numpy.uint16)", "            return numpy.dtype(numpy.uint32)", "R-C10-c")
fire("C10", "lengths in a different key order", X, "[len(entries[coords]) for coords in list_index]", "[len(entries[coords]) for coords in sorted(list_index)]", None)
silent("C10", "twin: rename loop variable", X, "        for i in list_index:\n            arr = entries[i]", "        for key in list_index:\n            arr = entries[key]")
