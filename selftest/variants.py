"""Seeded variants (mutants that must FIRE) and benign twins (that must stay SILENT),
per property.  Each edit is applied to a scratch copy of the sources (selftest/mutate.py)."""

V = []


def fire(prop, name, file, old, new, rule=None, count=None):
    V.append({"prop": prop, "name": name, "file": file, "old": old, "new": new, "expect": "fire", "rule": rule, "count": count})


def silent(prop, name, file, old, new, count=None, expect="silent"):
    V.append({"prop": prop, "name": name, "file": file, "old": old, "new": new, "expect": expect, "count": count})


# ---------------------------------------------------------------- C19
I = "iindexes.py"
fire("C19", "uint16 rung >= -> >", I, "elif maxval >= 2 ** 8:", "elif maxval > 2 ** 8:", "R-C19-contain")
fire("C19", "uint32 rung >= -> >", I, "elif maxval >= 2 ** 16:", "elif maxval > 2 ** 16:", "R-C19-contain")
fire("C19", "uint64 rung >= -> >", I, "if maxval >= 2 ** 32:", "if maxval > 2 ** 32:", "R-C19-contain")
fire("C19", "2**8 -> 2**7 (wider than needed)", I, "elif maxval >= 2 ** 8:", "elif maxval >= 2 ** 7:", "R-C19-minimal")
fire("C19", "drop maxval>2**31-1 rung", I, "        elif maxval > 2 ** 31 - 1:\n            dtype = numpy.int64\n", "", "R-C19-contain")
fire("C19", "int8 boundary off by one", I, "elif minval < -(2 ** 7):", "elif minval < -(2 ** 7) - 1:", "R-C19-contain")
fire("C19", "signed for non-negative", I, "        else:\n            dtype = numpy.uint8", "        else:\n            dtype = numpy.int16", "R-C19-sign")
fire("C19", "swap int16/int32 rungs", I, "elif minval < -(2 ** 15):\n            dtype = numpy.int32", "elif minval < -(2 ** 15):\n            dtype = numpy.int16", "R-C19-contain")
fire("C19", "negative-max convention dropped", I, "    if maxval < 0 and minval == 0:\n        minval = maxval\n", "", None)
silent("C19", "twin: iinfo constants", I, "elif maxval > 2 ** 7 - 1:", "elif maxval > numpy.iinfo(numpy.int8).max:")
silent("C19", "twin: reorder equivalent comparison", I, "if maxval >= 2 ** 32:", "if 2 ** 32 <= maxval:")
silent("C19", "twin: shift constants", I, "elif maxval >= 2 ** 16:", "elif maxval >= 1 << 16:")
silent("C19", "twin: not/<", I, "elif maxval >= 2 ** 8:", "elif not maxval < 256:")

# ---------------------------------------------------------------- C12 / C11 / C10
X = "indxio.py"
fire("C12", "mmap whole file instead of header+size", X, "f.fileno(), buffer_length, flags", "f.fileno(), 0, flags", "R-C12-a")
fire("C12", "swallow errors in load", X, "        buffer_size = struct.unpack(\"<Q\", f.read(8))[0]\n", "        try:\n            buffer_size = struct.unpack(\"<Q\", f.read(8))[0]\n        except Exception:\n            return {}, 0, None\n", None)
fire("C12", "version check dropped", X, "        if version != IndxIO.VERSION:\n            raise RuntimeError(\"Unexpected indexed format %s\" % version)\n", "", "R-C12-a")
fire("C12", "read lengths with f.read after header", X, "        word_size = struct.unpack_from(\"<B\", buf, offset=offset)[0]", "        f.seek(offset)\n        word_size = struct.unpack(\"<B\", f.read(1))[0]", None)
fire("C12", "size word omits the lengths block", X, "            + len(lengths) * dtype.itemsize  # rowid lengths\n", "", "R-C11-b")
fire("C12", "mmap length off by header", X, "buffer_length = offset + buffer_size", "buffer_length = buffer_size", "R-C12-a")
silent("C12", "twin: header constant hoisted", X, "        offset = 16\n", "        HEADER = 16\n        offset = HEADER\n")
silent("C12", "twin: compare magic with ==", X, "        if f.read(4) != IndxIO.INDEXED_MAGIC:\n            raise RuntimeError(\"Unexpected header\")", "        if f.read(4) == IndxIO.INDEXED_MAGIC:\n            pass\n        else:\n            raise RuntimeError(\"Unexpected header\")")

V.append({"prop": "C11", "name": "symmetric change of entry-count width (round trip blind)", "expect": "fire", "rule": "R-C11-a", "edits": [
    {"file": X, "old": "f.write(struct.pack(\"<L\", len(index)))", "new": "f.write(struct.pack(\"<Q\", len(index)))"},
    {"file": X, "old": "            + 4  # index length\n", "new": "            + 8  # index length\n"},
    {"file": X, "old": "index_length = struct.unpack_from(\"<L\", buf, offset=offset)[0]\n        offset += 4", "new": "index_length = struct.unpack_from(\"<Q\", buf, offset=offset)[0]\n        offset += 8"},
]})
fire("C11", "sum(lengths) back to NumPy scalar", X, "int(lengths.sum(dtype=numpy.uint64)) * dtype.itemsize", "sum(lengths) * dtype.itemsize", "R-C11-c")
fire("C11", "cursor advanced by NumPy scalar again", X, "zip(lengths.tolist(), all_coords)", "zip(lengths, all_coords)", "R-C11-c")
fire("C11", "big-endian common", X, "            return \"<Q\"\n", "            return \">Q\"\n", "R-C10-c")
fire("C11", "coordinates written before common", X, "        f.write(struct.pack(ind_format_string, common))\n\n        # Write index\n        index.tofile(f)\n", "        index.tofile(f)\n        f.write(struct.pack(ind_format_string, common))\n", "R-C11-a")
fire("C11", "reader offset skips a byte", X, "        index_word_size = struct.unpack_from(\"<B\", buf, offset=offset)[0]\n        ind_format_string = IndxIO.format(index_word_size)\n        offset += 1", "        index_word_size = struct.unpack_from(\"<B\", buf, offset=offset)[0]\n        ind_format_string = IndxIO.format(index_word_size)\n        offset += 2", "R-C10-b")
fire("C11", "seek back to patch size", X, "        if f.tell() != 16 + buffer_size:", "        f.seek(8)\n        if f.tell() != 16 + buffer_size:", "R-C11-e")
fire("C11", "word size not from fit_dtype", X, "        index_word_size = index_dtype.itemsize\n", "        index_dtype = numpy.dtype(numpy.uint64)\n        index_word_size = index_dtype.itemsize\n", "R-C11-d")
silent("C11", "twin: sum via tolist", X, "int(lengths.sum(dtype=numpy.uint64)) * dtype.itemsize", "sum(lengths.tolist()) * dtype.itemsize", expect="not-violated")
silent("C11", "twin: comments/blank lines moved", X, "        # Write index dimensions\n", "\n\n        # dims\n")

fire("C10", "common dropped from word-size choice", X, "max(numpy.max(index), common) if len(index) != 0 else common", "numpy.max(index) if len(index) != 0 else common", "R-C10-e")
fire("C10", "reader slices ptr:length", X, "rowids = rowid_lists[ptr : ptr + length]", "rowids = rowid_lists[ptr : length]", "R-C10-a")
fire("C10", "reader keeps file dtype", X, "                rowids = rowids.astype(numpy.uint32)\n", "                pass\n", "R-C10-d")
fire("C10", "keys left as NumPy rows", X, "all_coords = [tuple(row) for row in index.tolist()]", "all_coords = [tuple(row) for row in index]", "R-C10-d")
fire("C10", "dtype helper wrong for 2", X, "            return numpy.dtype(numpy.uint16)", "            return numpy.dtype(numpy.uint32)", "R-C10-c")
fire("C10", "lengths in a different key order", X, "[len(entries[coords]) for coords in list_index]", "[len(entries[coords]) for coords in sorted(list_index)]", None)
silent("C10", "twin: rename loop variable", X, "        for i in list_index:\n            arr = entries[i]", "        for key in list_index:\n            arr = entries[key]")

# ---------------------------------------------------------------- C17
FF, XF, CC, XC = "ffuncs.py", "xfuncs.py", "ccubes.py", "xcubes.py"
fire("C17", "ffunc_count: drop weights.copy()", FF, "            weights = weights.copy()\n", "", "R-C17-a")
fire("C17", "ffunc_sum: drop summables.copy()", FF, "            summables = summables.copy()\n", "            pass\n", "R-C17-a", count=0)
fire("C17", "ffunc_mean: drop summables.copy()", FF, "            summables = summables.copy()\n", "            pass\n", "R-C17-a", count=1)
fire("C17", "xfunc_count: drop weights.copy()", XF, "            weights = weights.copy()\n            weights[~validity] = 0", "            weights[~validity] = 0", "R-C17-a")
fire("C17", "xfunc_sum: drop summables.copy()", XF, "            summables = summables.copy()\n", "            pass\n", "R-C17-a", count=0)
fire("C17", "xfunc_mean: drop summables.copy()", XF, "            summables = summables.copy()\n", "            pass\n", "R-C17-a", count=1)
fire("C17", "xfunc_quantile: drop weights.copy()", XF, "                weights = weights.copy()\n                weights[neg_weights] = 0", "                weights[neg_weights] = 0", "R-C17-a")
fire("C17", "xfunc_covariance: drop weights.copy()", XF, "            weights = weights.copy()\n            weights[~weights_validity] = NaN", "            weights[~weights_validity] = NaN", "R-C17-a")
fire("C17", "xfunc_stddev: astype(float, copy=False)", XF, "        summables = summables.astype(float)\n        summables = summables.copy()\n", "        summables = summables.astype(float, copy=False)\n", "R-C17-a")
fire("C17", "as_separate_validity: nan_to_num in place", FF, "        arr = numpy.asarray(arr)\n        validity = ~numpy.isnan(arr)", "        arr = numpy.asarray(arr)\n        validity = ~numpy.isnan(arr)\n        numpy.nan_to_num(arr, copy=False)", "R-C17-a")
fire("C17", "cache regions on the aggregator", FF, "        sums = numpy.zeros(shape, dtype=dtype)\n        sums[cube.corner] = numpy.nansum(self.summables, axis=0)", "        if getattr(self, '_sums', None) is None:\n            self._sums = numpy.zeros(shape, dtype=dtype)\n        sums = self._sums\n        sums[cube.corner] = numpy.nansum(self.summables, axis=0)", None)
fire("C17", "xfunc scratch array written in fill", XF, "            sums[:] = numpy.nansum(self.summables, axis=0)\n            valid_counts[:] = numpy.count_nonzero", "            self.summables[:] = self.summables\n            sums[:] = numpy.nansum(self.summables, axis=0)\n            valid_counts[:] = numpy.count_nonzero", "R-C17-b")
fire("C17", "column_stack shifts the caller's index", I, "            ii = ii.copy()\n            ii.shift_common(new_common)", "            ii.shift_common(new_common)", "R-C17-a")
fire("C17", "to_array pops from the mapping", I, "            output = numpy.full(self.shape, mapping.get(self.common, 0), dtype=dtype)", "            output = numpy.full(self.shape, mapping.pop(self.common, 0), dtype=dtype)", "R-C17-a")
fire("C17", "collapsed sorts the caller's precedence", I, "        default = precedence[-1]\n", "        precedence.sort()\n        default = precedence[-1]\n", "R-C17-a")
fire("C17", "xcube.__init__ keeps dims but strided_dims multiplies in place", XC, "            sd = dim.astype(self.mintype)\n            if m != 1:\n                sd = sd * m", "            sd = dim.astype(self.mintype, copy=False)\n            if m != 1:\n                sd *= m", "R-C17-b")
fire("C17", "module-level option written", I, "        if len(self) > _printoptions[\"threshold\"]:", "        _printoptions[\"last\"] = len(self)\n        if len(self) > _printoptions[\"threshold\"]:", "R-C17-b")
silent("C17", "twin: ffunc_valid_count validity.copy() removed (source already fresh)", FF, "            countables = validity.copy()", "            countables = validity")
silent("C17", "twin: xfunc_stddev second copy removed (astype is fresh)", XF, "        summables = summables.copy()\n        summables[~validity] = float(\"nan\")", "        summables[~validity] = float(\"nan\")")
silent("C17", "twin: xfunc_corrcoef copy after astype removed", XF, "        self.arr = arr.astype(float).copy()\n        self.arr[~validity] = NaN\n        self.validity = validity\n        if self.validity.ndim > 1:\n            # if self.ignore_missing then we want to keep only complete cases,\n            # like R's `use=na.or.complete`.\n            self.validity = numpy.all(\n                validity.T, axis=tuple(d for d in range(self.validity.ndim) if d != 1)\n            )\n        self.weights = weights\n        self.ignore_missing = ignore_missing\n        self.return_missing_as = return_missing_as\n        if isinstance(self.return_missing_as, tuple):\n            self.null = self.return_missing_as[0]\n        else:\n            self.null = self.return_missing_as\n\n    def get_initial_regions(self, cube):\n        \"\"\"Return empty NumPy arrays to fill.\"\"\"\n        shape = cube.shape + self.shape\n        if not shape:\n            shape = (1,)\n        corrcoefs", "        self.arr = arr.astype(float)\n        self.arr[~validity] = NaN\n        self.validity = validity\n        if self.validity.ndim > 1:\n            # if self.ignore_missing then we want to keep only complete cases,\n            # like R's `use=na.or.complete`.\n            self.validity = numpy.all(\n                validity.T, axis=tuple(d for d in range(self.validity.ndim) if d != 1)\n            )\n        self.weights = weights\n        self.ignore_missing = ignore_missing\n        self.return_missing_as = return_missing_as\n        if isinstance(self.return_missing_as, tuple):\n            self.null = self.return_missing_as[0]\n        else:\n            self.null = self.return_missing_as\n\n    def get_initial_regions(self, cube):\n        \"\"\"Return empty NumPy arrays to fill.\"\"\"\n        shape = cube.shape + self.shape\n        if not shape:\n            shape = (1,)\n        corrcoefs")
silent("C17", "twin: quantile dead-branch copy removed (dtype is never the type object float)", XF, "            arr = arr.copy()\n        arr[~validity] = NaN", "            pass\n        arr[~validity] = NaN")
silent("C17", "twin: copy via numpy.array", FF, "            weights = weights.copy()\n", "            weights = numpy.array(weights)\n")
silent("C17", "twin: copy via arithmetic", FF, "            summables = summables.copy()\n", "            summables = summables * 1\n", count=0)

# ---------------------------------------------------------------- C16
fire("C16", "ccube: pool.imap (no barrier)", CC, "pool.map(fill_one_cube, self.product())", "pool.imap(fill_one_cube, self.product())", "R-C16-c")
fire("C16", "xcube: map_async (no barrier)", XC, "pool.map(fill_one_cube, self.product)", "pool.map_async(fill_one_cube, self.product)", "R-C16-c")
fire("C16", "xcube: pool cached on self", XC, "with closing(self.pool_class(self.poolsize)) as pool:", "with closing(self._pool) as pool:", "R-C16-c")
fire("C16", "ccube: tasks fill the whole region", CC, "regions = [region[tuple(flattened_slice)] for region in regions]", "regions = [region for region in regions]", "R-C16-a")
fire("C16", "xcube: tasks fill the whole region", XC, "regions = [region[tuple(flattened_slice)] for region in regions]", "regions = list(regions)", "R-C16-a")
fire("C16", "xfunc scratch buffer shared by tasks", XF, "        if self.ignore_missing:\n            sums, valid_counts = regions\n        else:\n            sums, valid_counts, missing_counts = regions\n\n        # This can be called thousands of times, so it's critical\n        # to perform as few passes over the data as possible.\n        # We set summables/countables[~validity] = 0 so there's\n        # no need to filter them out again here.\n\n        if coordinates is None:\n            sums[:] = numpy.nansum(self.summables, axis=0)\n            valid_counts[:] = numpy.count_nonzero(", "        if self.ignore_missing:\n            sums, valid_counts = regions\n        else:\n            sums, valid_counts, missing_counts = regions\n\n        self.summables[0] = self.summables[0]\n\n        if coordinates is None:\n            sums[:] = numpy.nansum(self.summables, axis=0)\n            valid_counts[:] = numpy.count_nonzero(", "R-C16-a")
fire("C16", "xcube: shared strided dim scaled in the task", XC, "            flattened_slice = [\n                e for coords in nested_coords if coords is not None for e in coords\n            ]\n", "            flattened_slice = [\n                e for coords in nested_coords if coords is not None for e in coords\n            ]\n            strided_dims[0] *= 1\n", "R-C16-a")
fire("C16", "ccube: task appends to a shared list", CC, "            subcube.walk(fill_funcs)\n", "            subcube.walk(fill_funcs)\n            results.append(None)\n", "R-C16-a")
fire("C16", "ccube: block chosen by a prefix of the coordinates", CC, "regions = [region[tuple(flattened_slice)] for region in regions]", "regions = [region[tuple(flattened_slice[:1])] for region in regions]", "R-C16-b")
fire("C16", "ccube: reduce inside the task", CC, "            subcube.walk(fill_funcs)\n", "            subcube.walk(fill_funcs)\n            for func, regions in zip(funcs, results):\n                func.reduce(self, regions)\n", None)
fire("C16", "xcube: serial branch runs a different iterable", XC, "            for nested_coords in self.product:\n                fill_one_cube(nested_coords)", "            for nested_coords in list(self.product)[:1]:\n                fill_one_cube(nested_coords)", "R-C16-d")
fire("C16", "aggregator state written by fill_func closure", FF, "        def _fill(x_coords, x_rowids):\n            if tracing:\n                start = time.perf_counter()\n\n            # This can be called millions of times, so it's critical\n            # to perform as few passes over the data as possible.\n            # We set summables[~validity] = 0", "        def _fill(x_coords, x_rowids):\n            self.last_coords = x_coords\n            if tracing:\n                start = time.perf_counter()\n\n            # This can be called millions of times, so it's critical\n            # to perform as few passes over the data as possible.\n            # We set summables[~validity] = 0", "R-C16-a")
silent("C16", "twin: views built in a loop", CC, "                    regions = [region[tuple(flattened_slice)] for region in regions]\n", "                    views = []\n                    for region in regions:\n                        views.append(region[tuple(flattened_slice)])\n                    regions = views\n")
silent("C16", "twin: rename task argument", XC, "        def fill_one_cube(nested_coords):", "        def fill_one_cube(nested_coords, _unused=None):")
silent("C16", "twin: starmap-free local alias of the task", CC, "                pool.map(fill_one_cube, self.product())", "                task = fill_one_cube\n                pool.map(task, self.product())")

# ---------------------------------------------------------------- C20
fire("C20", "ccube: swallow the interrupt in the task", CC, "            if self.check_interrupt is not None:\n                self.check_interrupt()\n", "            if self.check_interrupt is not None:\n                try:\n                    self.check_interrupt()\n                except Exception:\n                    return\n", "R-C20-b")
fire("C20", "xcube: callback once per calculate, not per task", XC, "        def fill_one_cube(nested_coords):\n            if self.check_interrupt is not None:\n                self.check_interrupt()\n", "        if self.check_interrupt is not None:\n            self.check_interrupt()\n\n        def fill_one_cube(nested_coords):\n", "R-C20-a")
fire("C20", "ccube: callback moved into the walk loop", CC, "                for coords, rowids in dims[0].items():\n                    self._walk(remaining_dims, base_coords + coords, rowids, funcs)", "                for coords, rowids in dims[0].items():\n                    if self.check_interrupt is not None:\n                        self.check_interrupt()\n                    self._walk(remaining_dims, base_coords + coords, rowids, funcs)", "R-C20-a")
V.append({"prop": "C20", "name": "xcube: callback after the regions were filled", "expect": "fire", "rule": "R-C20-a", "edits": [
    {"file": XC, "old": "            if self.check_interrupt is not None:\n                self.check_interrupt()\n\n            slices1d = [", "new": "            slices1d = ["},
    {"file": XC, "old": "                if bucket[\"start\"] is None:\n                    bucket[\"start\"] = start\n", "new": "                if bucket[\"start\"] is None:\n                    bucket[\"start\"] = start\n            if self.check_interrupt is not None:\n                self.check_interrupt()\n"},
]})
fire("C20", "ccube: pool.map_async (worker exception lost)", CC, "pool.map(fill_one_cube, self.product())", "pool.map_async(fill_one_cube, self.product())", "R-C20-c")
fire("C20", "xcube: contextlib.suppress around dispatch", XC, "            for nested_coords in self.product:\n                fill_one_cube(nested_coords)", "            import contextlib\n            with contextlib.suppress(Exception):\n                for nested_coords in self.product:\n                    fill_one_cube(nested_coords)", "R-C20-b")
fire("C20", "ccube: results kept on self and reused", CC, "        results = [func.get_initial_regions(self) for func in funcs]\n", "        results = [func.get_initial_regions(self) for func in funcs]\n        self._last_results = results\n", "R-C20-d")
fire("C20", "shortcut swallows errors", XC, "        return self.calculate(\n            [xfuncs.xfunc_count(weights, N, ignore_missing, return_missing_as)]\n        )[0]", "        try:\n            return self.calculate(\n                [xfuncs.xfunc_count(weights, N, ignore_missing, return_missing_as)]\n            )[0]\n        except Exception:\n            return None", "R-C20-b")
fire("C20", "ccube: pool not closed by with", CC, "            with closing(multiprocessing.pool.ThreadPool(self.poolsize)) as pool:\n                pool.map(fill_one_cube, self.product())", "            pool = multiprocessing.pool.ThreadPool(self.poolsize)\n            pool.map(fill_one_cube, self.product())", "R-C20-c")
silent("C20", "twin: bind the callback first", CC, "            if self.check_interrupt is not None:\n                self.check_interrupt()\n", "            check = self.check_interrupt\n            if check is not None:\n                check()\n", expect="not-violated")
silent("C20", "twin: try/finally that re-raises", XC, "            for nested_coords in self.product:\n                fill_one_cube(nested_coords)", "            try:\n                for nested_coords in self.product:\n                    fill_one_cube(nested_coords)\n            except Exception:\n                raise")

# ---------------------------------------------------------------- C09
S = "set_operations.pyx"
fire("C09", "intersect: guard back to 'and' (the fixed defect)", S, "if left_len == 0 or right_len == 0:", "if left_len == 0 and right_len == 0:", "R-C09-upper")
fire("C09", "intersect: >= -> > in right exhaustion test", S, "                right_ptr += 1\n                if right_ptr >= right_len:\n                    break\n                right = right_array[right_ptr]\n            elif right > left:\n                # Left value not present in right array.\n                left_ptr += 1", "                right_ptr += 1\n                if right_ptr > right_len:\n                    break\n                right = right_array[right_ptr]\n            elif right > left:\n                # Left value not present in right array.\n                left_ptr += 1", "R-C09-upper", count=0)
fire("C09", "union: result allocated with min()", S, "cdef int max_result_len = left_len + right_len", "cdef int max_result_len = min(left_len, right_len)", "R-C09-upper")
fire("C09", "difference: index right_len instead of right_len - 1", S, "        if (left > right_array[right_len - 1]) or (right > left_array[left_len - 1]):\n            # The two arrays do not overlap at all, so return left.", "        if (left > right_array[right_len]) or (right > left_array[left_len - 1]):\n            # The two arrays do not overlap at all, so return left.", "R-C09-upper")
fire("C09", "union: empty-operand returns deleted", S, "    if left_len == 0:\n        return numpy.asarray(right_array)\n    elif right_len == 0:\n        return numpy.asarray(left_array)\n", "", None)
fire("C09", "difference: break deleted after left exhaustion", S, "                        left_ptr += 1\n                        if left_ptr >= left_len:\n                            break\n                        left = left_array[left_ptr]\n                    else:", "                        left_ptr += 1\n                        left = left_array[left_ptr]\n                    else:", "R-C09-upper")
fire("C09", "difference: result sized by right_len", S, "    result = numpy.empty(left_len, dtype=numpy.uint32)\n    cdef uint32[:] result_view = result\n    cdef int result_len = 0\n\n    if left_len == 0:\n        pass", "    result = numpy.empty(right_len, dtype=numpy.uint32)\n    cdef uint32[:] result_view = result\n    cdef int result_len = 0\n\n    if left_len == 0:\n        pass", "R-C09-upper")
silent("C09", "twin: bounds checking turned back on for intersect", S, "@cython.boundscheck(False)  # Deactivate bounds checking\n@cython.wraparound(False)   # Deactivate negative indexing.\ndef set_intersect_merge_np", "@cython.boundscheck(True)\n@cython.wraparound(False)   # Deactivate negative indexing.\ndef set_intersect_merge_np")
silent("C09", "twin: union tail loops reordered", S, "        while left_ptr < left_len:\n            result_view[result_len] = left_array[left_ptr]\n            result_len += 1\n            left_ptr += 1\n        while right_ptr < right_len:\n            result_view[result_len] = right_array[right_ptr]\n            result_len += 1\n            right_ptr += 1\n", "        while right_ptr < right_len:\n            result_view[result_len] = right_array[right_ptr]\n            result_len += 1\n            right_ptr += 1\n        while left_ptr < left_len:\n            result_view[result_len] = left_array[left_ptr]\n            result_len += 1\n            left_ptr += 1\n")
silent("C09", "twin: <, >= rewritten", S, "                if left_ptr >= left_len:\n                    break\n                if right_ptr >= right_len:\n                    break\n                left = left_array[left_ptr]\n                right = right_array[right_ptr]\n\n    return result[:result_len]\n\n\ndef intersection", "                if not left_ptr < left_len:\n                    break\n                if right_len <= right_ptr:\n                    break\n                left = left_array[left_ptr]\n                right = right_array[right_ptr]\n\n    return result[:result_len]\n\n\ndef intersection")
