"""Seeded variants (mutants that must FIRE) and benign twins (that must stay SILENT),
per property.  Each edit is applied to a scratch copy of the sources (selftest/mutate.py)."""

V = []


def fire(prop, name, file, old, new, rule=None, count=None):
    V.append({"prop": prop, "name": name, "file": file, "old": old, "new": new, "expect": "fire", "rule": rule, "count": count})


def silent(prop, name, file, old, new, count=None, expect="silent"):
    V.append({"prop": prop, "name": name, "file": file, "old": old, "new": new, "expect": expect, "count": count})


# ---------------------------------------------------------------- C19
I = "iindexes.py"
fire("C19", "uint16 rung >= -> >", I, "elif maxval >= 2 ** 8:", "elif maxval > 2 ** 8:", "R-C19-contain")
fire("C19", "uint32 rung >= -> >", I, "elif maxval >= 2 ** 16:", "elif maxval > 2 ** 16:", "R-C19-contain")
fire("C19", "uint64 rung >= -> >", I, "if maxval >= 2 ** 32:", "if maxval > 2 ** 32:", "R-C19-contain")
fire("C19", "2**8 -> 2**7 (wider than needed)", I, "elif maxval >= 2 ** 8:", "elif maxval >= 2 ** 7:", "R-C19-minimal")
fire("C19", "drop maxval>2**31-1 rung", I, "        elif maxval > 2 ** 31 - 1:\n            dtype = numpy.int64\n", "", "R-C19-contain")
fire("C19", "int8 boundary off by one", I, "elif minval < -(2 ** 7):", "elif minval < -(2 ** 7) - 1:", "R-C19-contain")
fire("C19", "signed for non-negative", I, "        else:\n            dtype = numpy.uint8", "        else:\n            dtype = numpy.int16", "R-C19-sign")
fire("C19", "swap int16/int32 rungs", I, "elif minval < -(2 ** 15):\n            dtype = numpy.int32", "elif minval < -(2 ** 15):\n            dtype = numpy.int16", "R-C19-contain")
fire("C19", "negative-max convention dropped", I, "    if maxval < 0 and minval == 0:\n        minval = maxval\n", "", None)
silent("C19", "twin: iinfo constants", I, "elif maxval > 2 ** 7 - 1:", "elif maxval > numpy.iinfo(numpy.int8).max:")
silent("C19", "twin: reorder equivalent comparison", I, "if maxval >= 2 ** 32:", "if 2 ** 32 <= maxval:")
silent("C19", "twin: shift constants", I, "elif maxval >= 2 ** 16:", "elif maxval >= 1 << 16:")
silent("C19", "twin: not/<", I, "elif maxval >= 2 ** 8:", "elif not maxval < 256:")
